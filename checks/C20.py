"""C20 -- generated HTML: text from DSDL never introduces markup (E2, CrossHair through the real html templates)."""
import sys
from lib import common
from xh.runner import Cond, run_conditions


def main(tier: str) -> int:
    rep = common.Report("C20", tier, "other")
    rep.functions = ["nunavut.lang.html templates: type_base.j2, type_info.j2, namespace_info.j2, sidebar.j2, Namespace.j2 (rendered by the real "
                     "CodeGenEnvironment through DSDLCodeGenerator._generate_type)", "nunavut.lang.html filters reached by those templates"]
    M = "h_C20"
    n = "2" if tier == "quick" else "3"
    T = 600 if tier == "quick" else 3000
    conds = [Cond(M, f, T, 200, dict(C20_MAXLEN=n)) for f in ("type_doc_is_inert", "field_doc_is_inert")]
    rep.bounds = dict(doc_text=f"1..{n} characters over the markup-significant alphabet {{<, >, &, a, double quote, single quote}}",
                      pages="the type's own page and the namespace index page of /verif/data/ns1 (3 types, nested + field documentation)",
                      positions="type documentation and field documentation")
    rep.assumptions = ["class-representative alphabet: one letter stands for all non-markup characters",
                       "names and constant values are restricted to identifier/number syntax by pydsdl and are not made symbolic"]
    rep.not_covered = ["well-formedness (balanced tags) and link targets for all type graphs: a property of the template text over all ASTs with no "
                       "symbolic handle; not decided", "documentation longer than the bound", "namespace documentation (needs a type named '_')"]
    rep.extra["explanation"] = ("CrossHair/z3 symbolic execution of the real template rendering with the documentation string symbolic; the page must equal "
                                "the page rendered for an inert marker with the marker replaced by text that contains no < or >, whose every & starts a "
                                "character reference, and that un-escapes to the documentation string")
    rep.extra["trusted_base"] = ["crosshair-tool 0.0.110", "z3", "CPython 3.12"]
    run_conditions(rep, conds)
    return rep.write()


if __name__ == "__main__":
    sys.exit(main(sys.argv[1] if len(sys.argv) > 1 else "quick"))
