"""C20 -- generated HTML: text from DSDL never introduces markup (E2, CrossHair through the real html templates)."""
import sys
from lib import common
from xh.runner import Cond, run_conditions


def _links(rep, tier):
    """LINK clause, by a CONCRETE run (no solver: the input space of this clause is the type graph, which has no symbolic handle): the real nnvg
    generates the pages of /verif/data/ns5 (two versions of a type, a nested namespace, a service, a message named Request, array and scalar
    references); every hyperlink emitted for a reference to a type must name a generated page that carries the anchor."""
    import html.parser
    import os
    import pathlib
    import re
    from llsym import build
    with common.scratch("nvc20l_") as d:
        try:
            build.nnvg("html", d / "out", common.VERIF / "data" / "ns5" / "lk")
        except Exception as e:
            rep.unknown("links:generate", f"nnvg failed: {str(e)[-300:]}")
            return
        pages = {p: p.read_text() for p in (d / "out").rglob("*.html")}

        class Ids(html.parser.HTMLParser):
            def __init__(self):
                super().__init__()
                self.ids, self.hrefs = set(), []

            def handle_starttag(self, tag, attrs):
                a = dict(attrs)
                if a.get("id"):
                    self.ids.add(a["id"])
                if tag == "a" and a.get("href"):
                    self.hrefs.append(a["href"])
        parsed = {}
        for p, text in pages.items():
            body = re.sub(r"<script.*?</script>", "", text, flags=re.S)          # hrefs inside bundled JavaScript are template strings, not links
            h = Ids()
            h.feed(body)
            parsed[p] = h
        checked = bad = 0
        for p, h in parsed.items():
            for href in h.hrefs:
                if href.startswith(("javascript:", "http://", "https://")) or "${" in href or href == "/reg/Namespace.html":
                    continue
                path, _, anchor = href.partition("#")
                target = p if path == "" else pathlib.Path(os.path.normpath(str(p.parent / path)))
                if path.endswith("/") or (path and target.is_dir()):
                    target = target / "index.html"
                checked += 1
                ok = target in parsed and (anchor == "" or anchor in parsed[target].ids)
                if ok:
                    rep.discharged(1, key=f"link:{p.relative_to(d / 'out')}:{href}")
                    continue
                bad += 1
                rel = str(p.relative_to(d / "out"))
                kind = "service-half" if re.search(r"_(Request|Response)_\d+_\d+$", anchor) and "Svc" in anchor else \
                    ("from-nested-namespace-page" if rel.count("/") >= 2 else "other")
                rd = common.replay_dir("C20", dict(link=href, page=rel))
                (rd / "replay.sh").write_text("#!/bin/bash\n# regenerate the html pages of /verif/data/ns5 and look for the anchor\nD=$(mktemp -d)\n"
                                              f"{common.PY} -m nunavut --target-language html --experimental-languages -O $D {common.VERIF}/data/ns5/lk >/dev/null\n"
                                              f"echo 'page {rel} links to {href}'; T=$(realpath -m $D/{pathlib.Path(rel).parent}/{path})/index.html; "
                                              f"test -f $T && grep -q 'id=\"{anchor}\"' $T && exit 0; echo 'target page or anchor missing'; rm -rf $D; exit 11\n")
                os.chmod(rd / "replay.sh", 0o755)
                rep.counterexample(f"link-{kind}", f"page {rel}: hyperlink {href} -> {'no such page' if target not in parsed else 'page has no such anchor'} "
                                   f"({target.relative_to(d / 'out') if str(target).startswith(str(d / 'out')) else target})", str(rd), True)
        rep.extra["link_cosimulation"] = dict(pages=len(pages), links_checked=checked, unresolved=bad, kind="concrete run of the real nnvg, not a solver verdict")


def main(tier: str) -> int:
    rep = common.Report("C20", tier, "other")
    rep.functions = ["nunavut.lang.html templates: type_base.j2, type_info.j2, namespace_info.j2, sidebar.j2, Namespace.j2 (rendered by the real "
                     "CodeGenEnvironment through DSDLCodeGenerator._generate_type)", "nunavut.lang.html filters reached by those templates"]
    M = "h_C20"
    n = "2" if tier == "quick" else "3"
    T = 600 if tier == "quick" else 3000
    conds = [Cond(M, f, T, 200, dict(C20_MAXLEN=n)) for f in ("type_doc_is_inert", "field_doc_is_inert")]
    # documentation built from whole tokens (character references, tags); namespace documentation needs a namespace with a `_` type (ns4)
    for tok in range(13):
        conds.append(Cond(M, "namespace_doc_tokens_are_inert", T, 200, dict(C20_NS="ns4/hd", C20_TOK=str(tok))))
        conds.append(Cond(M, "type_doc_tokens_are_inert", T, 200, dict(C20_TOK=str(tok))))
        if tier != "quick":
            conds.append(Cond(M, "field_doc_tokens_are_inert", T, 200, dict(C20_TOK=str(tok))))
    rep.bounds = dict(doc_text=f"1..{n} characters over the markup-significant alphabet {{<, >, &, a, double quote, single quote}}",
                      pages="the type's own page and the namespace index page of /verif/data/ns1 (3 types, nested + field documentation)",
                      positions="type documentation and field documentation; namespace documentation (header comment of the `_` type of /verif/data/ns4)",
                      tokens="documentation made of 1..2 whole tokens from {<, >, &, quotes, a, &lt; &gt; &amp; &#60; &lt;b&gt; <b>, 'x y'} "
                             "(type and namespace documentation; thorough: field documentation too)")
    rep.assumptions = ["class-representative alphabet: one letter stands for all non-markup characters",
                       "names and constant values are restricted to identifier/number syntax by pydsdl and are not made symbolic"]
    rep.not_covered = ["well-formedness (balanced tags): not decided; link targets: only by a concrete run over the type graph of /verif/data/ns5 "
                       "(no symbolic handle over all type graphs)", "documentation longer than the bounds"]
    rep.extra["explanation"] = ("CrossHair/z3 symbolic execution of the real template rendering with the documentation string symbolic; the page must equal "
                                "the page rendered for an inert marker with the marker replaced by text that contains no < or >, whose every & starts a "
                                "character reference, and that un-escapes to the documentation string")
    rep.extra["trusted_base"] = ["crosshair-tool 0.0.110", "z3", "CPython 3.12"]
    run_conditions(rep, conds)
    _links(rep, tier)
    return rep.write()


if __name__ == "__main__":
    sys.exit(main(sys.argv[1] if len(sys.argv) > 1 else "quick"))
