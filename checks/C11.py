"""C11 -- types map one-to-one onto files; namespace model is a tree (E2, exhaustive finite case split over the real tree builder)."""
import sys
from lib import common
from xh.runner import Cond, run_conditions


def main(tier: str) -> int:
    rep = common.Report("C11", tier, "other")
    rep.functions = ["nunavut._namespace.build_namespace_tree", "Namespace.__init__ / get_all_datatypes / get_all_namespaces / get_nested_namespaces / "
                     "find_output_path_for_type / output_folder", "nunavut.lang._common.IncludeGenerator.make_path", "Language.filter_short_reference_name / filter_id"]
    M = "h_C11"
    conds = []
    if tier == "quick":
        cfgs = [("c", "r", "/out"), ("c", "register", "out"), ("py", "str", "/out/")]
        for lang, root, out in cfgs:
            for first in range(16):
                conds.append(Cond(M, "tree", 900, 120, dict(C11_LANG=lang, C11_ROOT=root, C11_OUT=out, C11_K="2", C11_FIRST=str(first))))
        # enumeration order of a namespace's children symbolic (both orders), over the types of the prefix-named sibling namespaces R.a.b / R.ab
        conds.append(Cond(M, "tree", 900, 300, dict(C11_LANG="c", C11_ROOT="r", C11_OUT="/out", C11_K="2", C11_PERM="1")))
        for lang in ("c", "cpp"):
            conds.append(Cond(M, "referenced_paths_are_generated_paths", 600, 120, dict(C11_LANG=lang, C11_OUT="/out")))
            for root in ("r", "register" if lang != "py" else "str"):
                # every single type; and every pair whose first type lives in the namespace with the reserved-word component
                conds.append(Cond(M, "generated_is_referenced_without_stropping", 900, 120, dict(C11_LANG=lang, C11_ROOT=root, C11_OUT="/out")))
                conds.append(Cond(M, "generated_is_referenced_without_stropping", 900, 120, dict(C11_LANG=lang, C11_ROOT=root, C11_OUT="/out", C11_FIRST="8")))
        rep.bounds = dict(extension_overrides="none, .h, .gen.h, .a.b.c, .hpp for the real types of /verif/data/ns1 (include paths of vt.B vs generated paths)",
                          types="<= 2 per tree", namespaces="R, R.a.b, R.<reserved word>, R.ab (prefix-named sibling of R.a); for the types of R.a.b and R.ab the children of a namespace are enumerated in both orders", names="A, A_1", versions="0.0, 1.0",
                          configurations="(c, root r, /out), (c, root register, relative out), (py, root str, trailing slash)")
    else:
        cfgs = [(l, r, o) for l in ("c", "cpp", "py") for r in (("r", "register") if l != "py" else ("r", "str")) for o in ("/out", "out", "/out/")]
        for lang, root, out in cfgs:
            for first in range(16):
                conds.append(Cond(M, "tree", 3000, 120, dict(C11_LANG=lang, C11_ROOT=root, C11_OUT=out, C11_K="2", C11_FIRST=str(first))))
        for first in range(36):
            conds.append(Cond(M, "tree", 3000, 120, dict(C11_LANG="c", C11_ROOT="r", C11_OUT="/out", C11_K="2", C11_WIDE="1", C11_FIRST=str(first))))
        for lang in ("c", "cpp"):
            for out in ("/out", "out"):
                conds.append(Cond(M, "referenced_paths_are_generated_paths", 1200, 120, dict(C11_LANG=lang, C11_OUT=out)))
        rep.bounds = dict(types="<= 2 per tree", namespaces="3 (wide: 5) incl. empty intermediate ones", names="2 (wide: 3)", versions="2",
                          configurations="c/cpp/py x plain or reserved root name x three output directory spellings; wide bound for c")
    rep.assumptions = ["duck-typed composite types (full_namespace, short_name, version, ...) stand for pydsdl types", "pathlib exists/resolve are stubbed: no file system",
                       "stropping of the chosen names is injective (no folded names in this alphabet)"]
    rep.not_covered = ["unbounded names/versions, more than 2 types per tree, namespace-stem overrides; extension overrides beyond the five listed", "service types"]
    rep.extra["explanation"] = ("CrossHair/z3 over the real namespace tree builder with symbolic (namespace, name, version) selectors: an exhaustive case split "
                                "three orders of magnitude slower than native enumeration of the same cases (honest note in DESIGN.md); kept because it runs the "
                                "real builder over every assignment within the bound")
    rep.extra["trusted_base"] = ["crosshair-tool 0.0.110", "z3", "CPython 3.12"]
    run_conditions(rep, conds)
    return rep.write()


if __name__ == "__main__":
    sys.exit(main(sys.argv[1] if len(sys.argv) > 1 else "quick"))
