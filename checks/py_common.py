"""Python target of the codec checks (E4 pysym): shared task runner for C01 / C02 / C03 and replay CLI.

A task is (kind, type index[, L]); every worker process imports the freshly generated package once under the numpy shim."""
from __future__ import annotations

import json
import os
import pathlib
import sys
import time
import typing

import pydsdl

from lib import common
from llsym import build, corpus

_STATE: dict = {}
ASSUMPTIONS = [
    "Python target (pysym): Python int = 256-bit bit-vector with a syntactic no-overflow bound (overflow of the model is inconclusive, never a pass); "
    "Python float = z3 Float64; numpy is replaced by pysym/npshim.py (1-D arrays, aliasing slices, element stores range-checked, typed arrays as "
    "little-endian bit patterns, packbits/unpackbits little) and struct.pack/unpack of <e <f <d follow CPython (RNE, OverflowError when a finite value "
    "rounds to infinity); the stand-in is co-simulated against the real numpy wheel on concrete inputs in every run",
    "Python value domain: scalar integers within the DSDL range and scalar floats non-finite or within the range of the declared format (the generated "
    "setters reject everything else); array elements anywhere in the numpy element type; array lengths 0..capacity and union options enumerated",
    "int(), float(), bool(), min(), max(), isinstance(x, int|float|bool), memoryview() inside the generated modules are bound to symbol-aware stand-ins "
    "with the builtin's meaning on concrete values (harness-side, nothing in /repo is changed)",
]
TYPES: typing.List[pydsdl.CompositeType] = []      # set by the check before forking workers


def generate(root: pathlib.Path, ns: pathlib.Path) -> pathlib.Path:
    out = root / "gen_py"
    if not out.exists():
        build.nnvg("py", out, ns, opts={}, extra=["--allow-unregulated-fixed-port-id"])
    _STATE.update(gen=out, unit=None)
    return out


def unit():
    from pysym import pycodec
    if _STATE.get("unit") is None or _STATE.get("pid") != os.getpid():
        _STATE["unit"] = pycodec.PyUnit(_STATE["gen"])
        _STATE["pid"] = os.getpid()
    return _STATE["unit"]


def budget(tier: str) -> float:
    return 280.0 if tier == "quick" else 1800.0


def covered(t: pydsdl.CompositeType, tier: str, kind: str = "ser") -> typing.Optional[str]:
    """None, or the reason why the Python run of this type is outside the tier"""
    if t.short_name.startswith("S_") and kind != "ser":
        return "serialization-only corpus type (255-element arrays): only the serializer queries are within the budget"
    if tier == "quick" and t.short_name in ("C_arrd",):
        return "array of delimited composites with capacity 2: ~1200 paths at the largest length (thorough tier)"
    return None


def work(a: tuple) -> list:
    """returns [(type index, 'py', what, log, None, wall)] in the shape checks/codec_common.record expects"""
    from pysym import pycodec
    kind, ti, tier = a[0], a[1], a[2]
    t = TYPES[ti]
    why = covered(t, tier, kind)
    if why:
        lg = pycodec.QueryLog(); lg.notes.append(f"NOT COVERED [py]: {why}")
        return [(ti, "py", "not covered", lg, None, 0.0)]
    t0 = time.time()
    try:
        u = unit()
        if kind == "ser":
            lg = pycodec.ser_queries(u, t, budget(tier))
            what = "serialize"
        elif kind == "builtin":
            lg = pycodec.builtin_roundtrip_queries(u, t, budget(tier))
            what = "to_builtin -> update_from_builtin round trip"
        elif kind == "arrayval":
            lg = pycodec.array_validation_queries(u, t)
            what = "array length validation"
        elif kind == "des":
            lg = pycodec.des_queries(u, t, a[3], budget(tier))
            what = f"deserialize L={a[3]}"
        else:
            lg = pycodec.roundtrip_queries(u, t, budget(tier))
            what = "roundtrip"
    except Exception as e:  # never a pass
        lg = pycodec.QueryLog(); lg.unknown.append(f"{type(e).__name__}: {str(e)[-300:]}")
        what = kind
    for c in lg.cex:
        c["target"] = "py"
    return [(ti, "py", what, lg, None, time.time() - t0)]


def cosim(rep: common.Report, types: typing.Sequence[pydsdl.CompositeType], per_type: int = 2) -> None:
    """co-simulation of the numpy stand-in against the real numpy wheel (concrete runs; validates the trusted base, decides nothing)"""
    from pysym import pycodec
    try:
        n, bad = pycodec.cosimulate(unit(), _STATE["gen"], list(types), common.seed(), per_type)
    except Exception as e:
        rep.unknown("py:cosimulation", f"could not run: {type(e).__name__}: {str(e)[-300:]}")
        return
    rep.extra["py_cosimulation"] = dict(concrete_runs_compared_with_real_numpy=n, disagreements=len(bad))
    for b in bad[:5]:
        rep.unknown("py:cosimulation", "numpy stand-in disagrees with the real numpy: " + b[:400])
    history(rep, types)


def history(rep: common.Report, types: typing.Sequence[pydsdl.CompositeType]) -> None:
    """process history of the generated Python code (memoised helpers, shared scratch arrays): a CONCRETE run in one real process, labelled as such"""
    from pysym import pycodec
    try:
        n, bad = pycodec.history_cosimulate(_STATE["gen"], list(types), common.seed())
    except Exception as e:
        rep.unknown("py:history", f"could not run: {type(e).__name__}: {str(e)[-300:]}")
        return
    rep.extra["py_history_cosimulation"] = dict(native_calls_in_one_process=n, violations=len(bad), kind="concrete run (real numpy), not a solver verdict")
    for b in bad[:5]:
        rd = common.replay_dir(rep.prop, dict(history=b[:200]))
        (rd / "replay.sh").write_text("#!/bin/bash\necho 'sequence of serialize/deserialize calls in one Python process: ' " + json.dumps(b[:300]) + "; exit 11\n")
        os.chmod(rd / "replay.sh", 0o755)
        rep.counterexample("py:history", "[py] process history: " + b[:400], str(rd), True)


def replayer(t: pydsdl.CompositeType):
    def f(_tu, c: dict, _on: str):
        from pysym import pycodec
        gen = _STATE["gen"]
        return _replay_any(gen, t, c)
    return f


def _replay_any(gen: pathlib.Path, t: pydsdl.CompositeType, c: dict):
    from pysym import pycodec
    fn = {"rt": pycodec.replay_roundtrip, "builtin": pycodec.replay_builtin, "arrayval": pycodec.replay_arrayval}.get(c["fn"], pycodec.replay)
    return fn(gen, t, c)


def write_replay(rd: pathlib.Path, tier: str, t: pydsdl.CompositeType, c: dict) -> None:
    (rd / "cex_py.json").write_text(json.dumps(dict(type=str(t.full_name), cex={k: v for k, v in c.items()}), default=str))
    (rd / "replay.sh").write_text("#!/bin/bash\n# regenerates the Python package from /repo's current nunavut and runs the counterexample natively (real numpy)\n"
                                  f"cd /verif && bin/ensure_env.sh && PYTHONPATH=/verif .venv/bin/python -m checks.py_common --replay {tier} {rd}/cex_py.json\n")
    os.chmod(rd / "replay.sh", 0o755)


def replay_cli(argv: typing.List[str]) -> int:
    from checks import codec_common as cc
    from pysym import pycodec
    tier, path = argv
    rec = json.loads(pathlib.Path(path).read_text())
    with common.scratch("nvrpy_") as d:
        es = cc.corpus_entries("thorough")
        ns = corpus.write(d / "dsdl", es)
        types = pydsdl.read_namespace(str(ns), [], allow_unregulated_fixed_port_id=True)
        flat = []
        for t in types:
            flat += [t.request_type, t.response_type] if isinstance(t, pydsdl.ServiceType) else [t]
        t = [x for x in flat if str(x.full_name) == rec["type"]][0]
        gen = generate(d, ns)
        c = rec["cex"]
        ok, how = _replay_any(gen, t, c)
        print(("REPRODUCED: " if ok else "not reproduced: ") + how)
        return 11 if ok else 0


if __name__ == "__main__":
    if len(sys.argv) > 1 and sys.argv[1] == "--replay":
        sys.exit(replay_cli(sys.argv[2:]))


# ---------------------------------------------------------------------------------------------- ground metadata of the generated Python classes
_META = r'''
import sys, json, fractions, math
sys.path.insert(0, sys.argv[1])
import pydsdl, nunavut_support as ns
types = pydsdl.read_namespace(sys.argv[2], [], allow_unregulated_fixed_port_id=True)
P = {16: (10, -14), 32: (23, -126), 64: (52, -1022)}
def ulp(q, bits):
    p, emin = P[bits]
    if q == 0: return fractions.Fraction(2) ** (emin - p)
    a = abs(q); e = a.numerator.bit_length() - a.denominator.bit_length()
    if fractions.Fraction(2) ** e > a: e -= 1
    return fractions.Fraction(2) ** (max(e, emin) - p)
out = []
def check(t, cls, idt, idcls):
    bad = []; n = 0
    def cmp(what, got, exp):
        nonlocal n
        n += 1
        if got != exp: bad.append([what, repr(got)[:80], repr(exp)[:80]])
    cmp("_EXTENT_BYTES_", getattr(cls, "_EXTENT_BYTES_", "MISSING"), t.extent // 8)
    cmp("_FIXED_PORT_ID_", getattr(idcls, "_FIXED_PORT_ID_", None), idt.fixed_port_id if idt.has_fixed_port_id else None)
    m = ns.get_model(cls)
    cmp("_MODEL_ == source model", m == t or getattr(m, "inner_type", m) == getattr(t, "inner_type", t), True)
    cmp("str(_MODEL_)", str(m), str(t))
    cmp("_MODEL_ fields", [(str(f.data_type), f.name) for f in m.fields], [(str(f.data_type), f.name) for f in t.fields])
    cmp("_MODEL_ extent/bit lengths", (m.extent, min(m.bit_length_set), max(m.bit_length_set)), (t.extent, min(t.bit_length_set), max(t.bit_length_set)))
    cmp("get_class(get_model(cls)) is cls", ns.get_class(m) is cls, True)
    for c in t.constants:
        n += 1
        if not hasattr(cls, c.name):
            bad.append(["constant " + c.name, "MISSING", str(c.value.native_value)]); continue
        v = getattr(cls, c.name); q = c.value.native_value
        if isinstance(c.data_type, pydsdl.FloatType):
            q = fractions.Fraction(q)
            ok = isinstance(v, float) and math.isfinite(v) and abs(fractions.Fraction(v) - q) <= ulp(q, c.data_type.bit_length)
            if not ok: bad.append(["constant " + c.name, repr(v), f"{float(q)!r} within one ulp of float{c.data_type.bit_length}"])
        else:
            want = ord(q) if isinstance(q, str) else q
            if isinstance(q, bool):
                if v is not q: bad.append(["constant " + c.name, repr(v), repr(q)])
            elif not (type(v) is int and v == int(want)):
                bad.append(["constant " + c.name, repr(v), repr(int(want))])
    out.append(dict(type=str(t), evaluations=n, bad=bad))
for t in types:
    try:
        if isinstance(t, pydsdl.ServiceType):
            c = ns.get_class(t)
            check(t.request_type, c.Request, t, c); check(t.response_type, c.Response, t, c)
        else:
            c = ns.get_class(t); check(t, c, t, c)
    except Exception as e:
        out.append(dict(type=str(t), evaluations=1, bad=[["probe", type(e).__name__ + ": " + str(e)[:120], "importable class with metadata"]]))
print(json.dumps(out))
'''


_DECOY_GEN = r'''
import sys, pathlib, re, shutil, tempfile
import nunavut
real, out = pathlib.Path(sys.argv[1]), pathlib.Path(sys.argv[2])
# a DECOY revision of the same namespace: same type names, versions and wire layout, other constant values and other field names
d = pathlib.Path(tempfile.mkdtemp())
try:
    dec = d / real.name
    shutil.copytree(real, dec)
    for f in dec.rglob("*.dsdl"):
        t = f.read_text()
        t = re.sub(r"^(u?int\d+ [A-Za-z_]\w* = )\d+$", r"\g<1>1", t, flags=re.M)
        t = re.sub(r"^((?:saturated |truncated )?(?:u?int\d+|bool|float\d+)(?:\[[^\]]*\])? )([a-z]\w*)$", r"\1\2_decoy", t, flags=re.M)
        f.write_text(t)
    kw = dict(omit_serialization_support=False, allow_unregulated_fixed_port_id=True, include_experimental_languages=True)
    nunavut.generate_types("py", dec, d / "out_decoy", **kw)        # an earlier generator run in this process ...
    nunavut.generate_types("py", real, out, **kw)                   # ... must not influence this one
finally:
    shutil.rmtree(d, ignore_errors=True)
'''


def generate_after_decoy(root: pathlib.Path, ns: pathlib.Path) -> pathlib.Path:
    """the Python package of `ns`, generated through the Python API in a process that has generated a decoy revision of it first"""
    import subprocess
    out = root / "gen_py_after_decoy"
    if not out.exists():
        env = dict(os.environ)
        alt = env.get("VERIF_NUNAVUT_SRC")
        env["PYTHONPATH"] = alt if alt else ""
        p = subprocess.run([common.PY, "-c", _DECOY_GEN, str(ns), str(out)], stdout=subprocess.PIPE, stderr=subprocess.PIPE, text=True, env=env)
        if p.returncode != 0:
            raise RuntimeError("generation after a decoy run failed: " + p.stderr[-500:])
    return out


def python_metadata(gen: pathlib.Path, ns: pathlib.Path) -> typing.List[dict]:
    """GROUND evaluation (no solver): class attributes of the generated Python classes against the pydsdl model, in a subprocess with the real numpy"""
    import subprocess
    env = {k: v for k, v in os.environ.items() if k != "PYTHONPATH"}
    p = subprocess.run([common.PY, "-c", _META, str(gen), str(ns)], stdout=subprocess.PIPE, stderr=subprocess.PIPE, text=True, env=env)
    if p.returncode != 0 or not p.stdout.strip():
        raise RuntimeError("metadata probe failed: " + p.stderr[-600:])
    return json.loads(p.stdout.strip().splitlines()[-1])
