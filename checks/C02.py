"""C02 -- generated deserializers decode every byte string as the specification prescribes (E1 llsym, C target)."""
from __future__ import annotations

import sys
import time

from lib import common
from llsym import codec
from checks import codec_common as cc
from checks import py_common

_TYPES = []
_TIER = ["quick"]


def _work(a):
    if a[0] == "py":
        return py_common.work((a[1], a[2], _TIER[0], a[3]))
    ti, on = a
    t = _TYPES[ti]
    out = []
    try:
        tu = cc.unit_for(t, on, "B")
    except cc.NotCovered as e:
        lg = codec.QueryLog(); lg.notes.append(f"NOT COVERED [{on}]: {e}")
        return [(ti, on, "not covered", lg, None, 0.0)]
    except Exception as e:
        lg = codec.QueryLog(); lg.unknown.append(f"build failed: {str(e)[-300:]}")
        return [(ti, on, "build", lg, None, 0.0)]
    for L in cc.des_lengths(t, _TIER[0]):
        t0 = time.time()
        try:
            lg = codec.des_queries(tu, L, check_ub=False)
        except Exception as e:
            lg = codec.QueryLog(); lg.unknown.append(f"{type(e).__name__}: {str(e)[-300:]}")
        out.append((ti, on, f"deserialize L={L}", lg, tu, time.time() - t0))
    return out


def main(tier: str) -> int:
    rep = common.Report("C02", tier, "other")
    _TIER[0] = tier
    optnames = ["default", "little+asserts", "cpp14"] if tier == "quick" else list(cc.OPTSETS)
    with common.scratch("nvc02_") as d:
        types, feats = cc.prepare(tier, d, optnames)
        _TYPES[:] = types
        tasks = [(i, on) for on in optnames for i in range(len(types))]
        py_common.generate(d, d / "dsdl" / "vt")
        py_common.TYPES[:] = types
        # (Python, thorough: the array of delimited composites with capacity 2 costs minutes per length; it keeps the representative lengths)
        # every length for types of at most 8 bytes, the representative lengths for larger ones (a full thorough run with every length for every
        # type exceeded 45 minutes on a loaded machine)
        from llsym import codec as _codec
        tasks += [("py", "des", i, L) for i in range(len(types))
                  for L in cc.des_lengths(types[i], tier if (_codec.max_bytes(types[i]) <= 8 and types[i].short_name != "C_arrd") else "quick")]
        for res in common.pmap(_work, tasks):
            for ti, on, what, lg, tu, wall in res:
                cc.record(rep, types[ti], on, what, lg, tu, wall, replayer=py_common.replayer(types[ti]) if on == "py" else None)
        optnames = optnames + ["py"]
        py_common.cosim(rep, types)
        rep.functions = ["<T>_deserialize_ of every corpus type with everything it calls (nunavutGetU8..64, nunavutGetI8..64, nunavutGetF16/32/64, "
                         "nunavutGetBit, nunavutGetBits, nunavutCopyBits, nunavutFloat16Unpack, nested <T>_deserialize_)"]
        rep.bounds = dict(types=len(types), option_sets=optnames,
                          buffer_lengths=("{0, 1, ceil(max/2), max-1, max, max+2, extent}" if tier == "quick" else "every L in 0..max(extent,max)+2 (capped at max+6)"),
                          data="every buffer byte symbolic (arbitrary byte strings, not only truncated encodings); prior destination object symbolic")
    rep.assumptions = ["types outside the corpus and buffer lengths beyond the stated range are outside",
                       "clang 14 -O1 IR of x86-64; pydsdl describes the types",
                       "float16 decode: exact half->single conversion, any NaN for NaN",
                       "delimiter headers, length prefixes and union tags are symbolic; the executor splits on their feasible values (bounded by L / capacity)"]
    rep.not_covered = ["C++: types with bit arrays (std::bitset / std::vector<bool>); C++17 std::variant and pmr/cetl flavours only in the thorough tier",
                       "Python: the consumed-size clause (the Python API does not report it); NaN payloads; numpy >= 2 scalar-promotion errors",
                       "types not in the corpus"]
    rep.functions.append("Python target: <T>._deserialize_ of every corpus type and the generated nunavut_support.Deserializer / ZeroExtendingBuffer "
                         "(fetch_aligned_*/fetch_unaligned_*, fork_bytes, get_byte, get_unsigned_slice, _unsigned_from_bytes) executed by pysym")
    rep.assumptions += py_common.ASSUMPTIONS
    rep.extra["explanation"] = ("llsym symbolic execution of each generated deserializer on an arbitrary L-byte buffer; per path and per wire shape one z3 "
                                "query: NOT(rc / consumed size / every meaningful decoded field match the reference decode of the zero-extended buffer) "
                                "must be unsat; invalid representations must yield exactly the specified error")
    rep.extra["trusted_base"] = ["clang 14", "z3 5.1", "llsym interpreter", "llsym/dsdlspec.py reference model", "pydsdl"]
    return rep.write()


if __name__ == "__main__":
    sys.exit(main(sys.argv[1] if len(sys.argv) > 1 else "quick"))
