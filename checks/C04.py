"""C04 -- generated C codecs are memory-safe, total and free of prior-state influence (E1 llsym on -O0+mem2reg IR, obligations on)."""
from __future__ import annotations

import sys
import time

from lib import common
from llsym import codec, core
from checks import codec_common as cc

_TYPES = []
_TIER = ["quick"]


def _null_api(tu: codec.TypeUnit) -> codec.QueryLog:
    """documented NULL / zero-size combinations: invalid-argument error, or (deserialize, NULL buffer, size 0) an empty message"""
    lg = codec.QueryLog()
    eng = tu.engine(True)
    for fn, mk in (("h_ser", lambda st: [core.NULL, st.new_obj(4, "buf", core.sym_bytes("b", 4)), st.new_obj(8, "size", [4, 0, 0, 0, 0, 0, 0, 0])]),
                   ("h_ser", lambda st: [st.new_obj(tu.size, "obj", core.sym_bytes("o", tu.size), writable=False), core.NULL, st.new_obj(8, "size", [4, 0, 0, 0, 0, 0, 0, 0])]),
                   ("h_ser", lambda st: [st.new_obj(tu.size, "obj", core.sym_bytes("o", tu.size), writable=False), st.new_obj(4, "buf", core.sym_bytes("b", 4)), core.NULL]),
                   ("h_des", lambda st: [core.NULL, st.new_obj(4, "buf", core.sym_bytes("b", 4), writable=False), st.new_obj(8, "size", [4, 0, 0, 0, 0, 0, 0, 0])]),
                   ("h_des", lambda st: [st.new_obj(tu.size, "dst", core.sym_bytes("prior", tu.size)), core.NULL, st.new_obj(8, "size", [4, 0, 0, 0, 0, 0, 0, 0])]),
                   ("h_des", lambda st: [st.new_obj(tu.size, "dst", core.sym_bytes("prior", tu.size)), st.new_obj(4, "buf", core.sym_bytes("b", 4), writable=False), core.NULL])):
        st = core.State()
        try:
            res = eng.run(fn, mk(st), st)
        except core.Unsupported as e:
            lg.unknown.append(f"null-api unsupported: {e}")
            continue
        for kind, s2, r in res:
            lg.paths += 1
            if kind == "violation":
                lg.cex.append(dict(fn=fn[2:], kind=r.kind, what=f"NULL-argument call: {r}", bufsize=4, L=4, inputs=None))
            elif (r & 0xFF if isinstance(r, int) else None) != (-codec.ERR_INVALID_ARG) & 0xFF:
                lg.cex.append(dict(fn=fn[2:], kind="bad-return", what=f"NULL-argument call returned {r}", bufsize=4, L=4, inputs=None))
            else:
                lg.unsat += 1
    # deserialize(dst, NULL, size 0) is documented as an empty message
    st = core.State()
    try:
        res = eng.run("h_des", [st.new_obj(tu.size, "dst", core.sym_bytes("prior", tu.size)), core.NULL, st.new_obj(8, "size", [0] * 8)], st)
        for kind, s2, r in res:
            lg.paths += 1
            if kind == "violation":
                lg.cex.append(dict(fn="des", kind=r.kind, what=f"deserialize(NULL buffer, size 0): {r}", L=0, inputs=None))
            else:
                lg.unsat += 1
    except core.Unsupported as e:
        lg.unknown.append(f"null-api unsupported: {e}")
    return lg


def _with_fallback(tuA, tuB_get, fn, **kw):
    """-O0 IR with all obligations under a budget; if the path count explodes (float16 saturation inside arrays), fall back to the
    -O1 IR with memory obligations only and say so"""
    try:
        lg = fn(tuA, check_ub=True, **kw)
    except Exception as e:
        lg = codec.QueryLog(); lg.unknown.append(f"{type(e).__name__}: {str(e)[-300:]}")
    if any("time budget" in u for u in lg.unknown):
        try:
            lg = fn(tuB_get(), check_ub="mem", **kw)
            lg.notes.append("arithmetic obligations (nsw, shifts) NOT covered for this run: -O0 IR exceeded its budget, -O1 IR with memory obligations used")
        except Exception as e:
            lg = codec.QueryLog(); lg.unknown.append(f"{type(e).__name__}: {str(e)[-300:]}")
    return lg


def _work_cpp(ti, on, t, tu):
    """C++: -O1 IR, memory obligations + heap discipline (double free, bad free, use after free, leak at exit); valid objects only"""
    out = []
    mx = codec.max_bytes(t)
    for bs in sorted({0, 1, max(mx - 1, 0), mx, mx + 2}) if _TIER[0] == "quick" else range(0, mx + 3):
        t0 = time.time()
        try:
            lg = codec.ser_queries(tu, bs, check_ub="mem", functional=False)
        except Exception as e:
            lg = codec.QueryLog(); lg.unknown.append(f"{type(e).__name__}: {str(e)[-300:]}")
        out.append((ti, on, f"serialize buf={bs} (memory + heap obligations)", lg, tu, time.time() - t0))
    for L in cc.des_lengths(t, _TIER[0]):
        t0 = time.time()
        try:
            lg = codec.des_queries(tu, L, check_ub="mem", functional=False, uninit_dst=False)
        except Exception as e:
            lg = codec.QueryLog(); lg.unknown.append(f"{type(e).__name__}: {str(e)[-300:]}")
        out.append((ti, on, f"deserialize L={L} (memory + heap obligations)", lg, tu, time.time() - t0))
    # the outcome depends only on the input bytes, never on what the destination OBJECT held before (a valid earlier value)
    for L in ([] if cc.ser_only(t) else sorted({0, (mx + 1) // 2, mx})):
        t0 = time.time()
        try:
            lg = codec.des_queries(tu, L, check_ub="mem", functional=False, uninit_dst=True, entry="h_des_prior")
        except Exception as e:
            lg = codec.QueryLog(); lg.unknown.append(f"{type(e).__name__}: {str(e)[-300:]}")
        out.append((ti, on, f"deserialize L={L} into an object holding an arbitrary valid prior value", lg, tu, time.time() - t0))
    return out


def _work(a):
    ti, on = a
    t = _TYPES[ti]
    out = []
    try:
        tu = cc.unit_for(t, on, "A")        # C++ option sets come back as -O1 units (memory obligations, heap discipline)
        tu.budget_s = 60.0 if _TIER[0] == "quick" else 240.0
        if cc.is_cpp(on):
            return _work_cpp(ti, on, t, tu)
    except cc.NotCovered as e:
        lg = codec.QueryLog(); lg.notes.append(f"NOT COVERED [{on}]: {e}")
        return [(ti, on, "not covered", lg, None, 0.0)]
    except Exception as e:
        lg = codec.QueryLog(); lg.unknown.append(f"build failed: {str(e)[-300:]}")
        return [(ti, on, "build", lg, None, 0.0)]
    cache = {}

    def tub():
        if "b" not in cache:
            cache["b"] = cc.unit_for(t, on, "B")
        return cache["b"]
    mx = codec.max_bytes(t)
    # (255-element serialization-only types: every tier uses the five representative sizes, 261 sizes x 30 s per option set is outside any budget)
    sizes = sorted({0, 1, max(mx - 1, 0), mx, mx + 2}) if (_TIER[0] == "quick" or cc.ser_only(t)) else list(range(0, mx + 3))
    for bs in sizes:
        t0 = time.time()
        lg = _with_fallback(tu, tub, lambda u, check_ub, bs=bs: codec.ser_queries(u, bs, check_ub=check_ub, functional=False))
        out.append((ti, on, f"serialize buf={bs} (obligations, invalid counts/tags allowed)", lg, tu, time.time() - t0))
    for L in cc.des_lengths(t, _TIER[0]):
        t0 = time.time()
        lg = _with_fallback(tu, tub, lambda u, check_ub, L=L: codec.des_queries(u, L, check_ub=check_ub, functional=False, uninit_dst=True))
        out.append((ti, on, f"deserialize L={L} (obligations, arbitrary prior destination state)", lg, tu, time.time() - t0))
    t0 = time.time()
    out.append((ti, on, "NULL / zero-size API combinations", _null_api(tu), tu, time.time() - t0))
    return out


def main(tier: str) -> int:
    rep = common.Report("C04", tier, "other")
    _TIER[0] = tier
    optnames = ["default", "little+asserts", "cpp14"] if tier == "quick" else list(cc.OPTSETS)
    with common.scratch("nvc04_") as d:
        types, feats = cc.prepare(tier, d, optnames)
        _TYPES[:] = types
        tasks = [(i, on) for on in optnames for i in range(len(types))]
        for res in common.pmap(_work, tasks):
            for ti, on, what, lg, tu, wall in res:
                cc.record(rep, types[ti], on, what, lg, tu, wall)
        rep.functions = ["<T>_serialize_, <T>_deserialize_ of every corpus type and all callees, on -O0 + mem2reg IR (every IR operation is an evaluated source operation)"]
        rep.bounds = dict(types=len(types), option_sets=optnames, serialize_buffer_sizes=("{0,1,max-1,max,max+2}" if tier == "quick" else "0..max+2"),
                          deserialize_lengths=("{0,1,ceil(max/2),max-1,max,max+2,extent}" if tier == "quick" else "0..max(extent,max)+2"),
                          objects="all bytes symbolic, NO validity assumption on counts and tags (only bool storage in {0,1})",
                          destination="arbitrary prior state (symbolic bytes prior<i>): path, return code, consumed size and every meaningful field must be independent of it",
                          buffers="allocated at exactly the declared size as separate objects (model of exactly-sized heap allocations)")
    rep.assumptions = ["obligations checked by the interpreter: every access inside its live object, no read of uninitialised cells, shift < width, "
                       "divisor != 0, nsw arithmetic does not overflow, memcpy ranges disjoint, no write to const objects, no abort/assert reached",
                       "getelementptr-inbounds results outside [0,size] that are never dereferenced are recorded as notes (no sanitizer can confirm them)",
                       "leak freedom is trivial for C (no allocation); C++ heap discipline is staged"]
    rep.not_covered = ["C++: arithmetic obligations (only -O1 IR is executed), types with bit arrays, pmr/cetl flavours; C++17 std::variant in the thorough tier only",
                       "capacity-override builds", "types not in the corpus"]
    rep.extra["explanation"] = ("llsym symbolic execution with UB/bounds obligations on; every path must end in a documented return code with "
                                "size <= supplied size; the outcome of a deserialization must not depend on the prior destination bytes (syntactic check, else two-copy z3 query)")
    rep.extra["trusted_base"] = ["clang 14", "z3 5.1", "llsym interpreter and its memory model"]
    return rep.write()


if __name__ == "__main__":
    sys.exit(main(sys.argv[1] if len(sys.argv) > 1 else "quick"))
