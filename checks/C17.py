"""C17 -- headers generated with different language options cannot be compiled together (E3: finite-domain SMT over rendered tables).

The guard is a compile-time comparison; no compiler is encoded.  What is decided: the real templates are rendered once per documented
value of each option; the emitted  define[k][v]  (support header) and  assert[k][v]  (type header) tables are extracted; z3 decides over
ALL pairs of option sets at once whether (a) two different option sets exist whose headers satisfy every emitted static assertion,
(b) identical option sets exist that violate one, (c) a documented option is missing from either table.
Counterexamples are replayed by really compiling the two headers together.
"""
from __future__ import annotations

import itertools
import os
import pathlib
import random
import re
import subprocess
import sys
import time
import typing

import z3

from lib import common
from llsym import build

NS = common.VERIF / "data" / "ns1" / "vt"
C_OPTS: typing.Dict[str, typing.List[typing.Any]] = {
    "target_endianness": ["any", "little", "big"],
    "omit_float_serialization_support": [False, True],
    "enable_serialization_asserts": [False, True],
    "enable_override_variable_array_capacity": [False, True],
}
CPP_OPTS = dict(C_OPTS, std=["c++14", "c++17", "c++20", "cetl++14-17", "c++17-pmr"])
# option keys every header pair must compare (documented language options of the target)
C_KEYS = list(C_OPTS) + ["cast_format"]
CPP_KEYS = list(C_OPTS) + ["std", "std_flavor", "cast_format", "variable_array_type_include", "variable_array_type_template",
                           "variable_array_type_constructor_args", "allocator_include", "allocator_type", "allocator_is_default_constructible", "ctor_convention"]


def _flags(lang: str, cfg: dict) -> dict:
    return dict(target_endianness=cfg["target_endianness"], asserts=cfg["enable_serialization_asserts"], override_capacity=cfg["enable_override_variable_array_capacity"],
                omit_float=cfg["omit_float_serialization_support"], std=cfg.get("std"))


def _render(a) -> typing.Tuple[str, tuple, dict, dict, str]:
    lang, cfg_items, out = a
    cfg = dict(cfg_items)
    try:
        build.nnvg(lang, pathlib.Path(out), NS, opts=_flags(lang, cfg))
    except Exception as e:
        return lang, cfg_items, {}, {}, f"generation failed: {str(e)[-300:]}"
    ext = "h" if lang == "c" else "hpp"
    sup = (pathlib.Path(out) / "nunavut" / "support" / f"serialization.{ext}").read_text()
    typ = (pathlib.Path(out) / "vt" / f"A_1_0.{ext}").read_text()
    if lang == "c":
        defs = {k.lower(): int(v) for k, v in re.findall(r"#define NUNAVUT_SUPPORT_LANGUAGE_OPTION_(\w+) (\d+)\b", sup)}
        asr = {k.lower(): int(v) for k, v in re.findall(r"static_assert\(\s*NUNAVUT_SUPPORT_LANGUAGE_OPTION_(\w+)\s*==\s*(\d+)\s*,", typ)}
    else:
        m = re.search(r"namespace options\s*\{(.*?)\}\s*// end namespace options", sup, re.S)
        defs = {k: int(v) for k, v in re.findall(r"constexpr std::uint32_t (\w+) = (\d+);", m.group(1) if m else "")}
        asr = {k: int(v) for k, v in re.findall(r"static_assert\(\s*nunavut::support::options::(\w+)\s*==\s*(\d+)\s*,", typ)}
    return lang, cfg_items, defs, asr, ""


def _default(opts: dict) -> dict:
    return {k: v[0] for k, v in opts.items()}


def main(tier: str) -> int:
    rep = common.Report("C17", tier, "other")
    rng = random.Random(common.seed())
    with common.scratch("nvc17_") as d:
        jobs = []
        for lang, opts in (("c", C_OPTS), ("cpp", CPP_OPTS)):
            base = _default(opts)
            cfgs = [base] + [dict(base, **{k: v}) for k, vals in opts.items() for v in vals[1:]]
            # spot validation of the independence assumption: seeded multi-option configurations
            for _ in range(2 if tier == "quick" else 8):
                cfgs.append({k: rng.choice(v) for k, v in opts.items()})
            for i, c in enumerate(cfgs):
                jobs.append((lang, tuple(sorted(c.items(), key=lambda kv: kv[0])), str(d / f"{lang}_{i}")))
        results = common.pmap(_render, jobs)
        for lang, opts, keys in (("c", C_OPTS, C_KEYS), ("cpp", CPP_OPTS, CPP_KEYS)):
            base = _default(opts)
            mine = [(dict(ci), de, asr, err, out) for (l, ci, de, asr, err), (_, _, out) in zip(results, jobs) if l == lang]
            errs = [e for _, _, _, e, _ in mine if e]
            if errs:
                rep.unknown(f"{lang}:render", errs[0])
                continue
            single = {}      # (key, value) -> (defines, asserts) of the render where only this option differs from the default
            for cfg, de, asr, _, out in mine:
                diff = [k for k in opts if cfg[k] != base[k]]
                if len(diff) == 0:
                    single[("__base__", None)] = (de, asr, out)
                elif len(diff) == 1:
                    single[(diff[0], cfg[diff[0]])] = (de, asr, out)
            bde, basr, bout = single[("__base__", None)]
            # (c) key coverage
            for k in keys:
                if k not in bde or k not in basr:
                    rd = common.replay_dir("C17", dict(lang=lang, missing=k))
                    (rd / "replay.sh").write_text(f"#!/bin/bash\necho 'option {k} is not compared: present in support defines={k in bde}, in type assertions={k in basr}'; exit 11\n")
                    rep.counterexample(f"{lang}:missing-option:{k}", f"[{lang}] documented option '{k}' is missing from the {'support header defines' if k not in bde else 'type header assertions'}", str(rd), True)
                else:
                    rep.discharged(1, key=f"{lang}:coverage:{k}")
            # tables: which emitted keys react to which option value (an option may drive several emitted keys: std shorthands)
            emitted = sorted(set(bde) | set(basr))
            table_d = {k: {} for k in opts}
            table_a = {k: {} for k in opts}
            for k, vals in opts.items():
                for v in vals:
                    de, asr, _ = single[(k, v)] if v != base[k] else (bde, basr, bout)
                    table_d[k][v], table_a[k][v] = de, asr
            # independence spot validation: a multi-option render equals the composition of the single-option tables
            for cfg, de, asr, _, _ in mine:
                for e in emitted:
                    drivers = [k for k in opts if any(table_d[k][v].get(e) != bde.get(e) for v in opts[k])]
                    exp = bde.get(e)
                    for k in drivers:
                        if table_d[k][cfg[k]].get(e) != bde.get(e):
                            exp = table_d[k][cfg[k]].get(e)
                    if de.get(e) != exp and len(drivers) <= 1:
                        rep.unknown(f"{lang}:independence", f"emitted key {e} under {cfg} is {de.get(e)}, single-option tables predict {exp}: independence assumption violated")
            # concrete co-simulation with the real compiler (NOT a solver verdict): a translation unit that mixes type headers of two
            # runs -- support header and the dependency vt.A from one option set, the dependent vt.B (+ vt.sub.C) from another -- must be
            # rejected whenever the sets differ.  The table model below sees each header's assertions in isolation; this run sees them
            # through the preprocessor (include order, guards, conditional compilation).
            mixed = 0
            for k, vals in opts.items():
                for v in vals[1:]:
                    for s_out, t_out, s_cfg, t_cfg in ((bout, single[(k, v)][2], base, dict(base, **{k: v})), (single[(k, v)][2], bout, dict(base, **{k: v}), base)):
                        compiles, err = _mixed_tu(lang, pathlib.Path(s_out), pathlib.Path(t_out), d)
                        mixed += 1
                        if compiles:
                            rd = common.replay_dir("C17", dict(lang=lang, mixed=(s_cfg, t_cfg)))
                            (rd / "replay.sh").write_text(f"#!/bin/bash\necho 'support header and vt/A from {s_cfg}, vt/B and vt/sub/C from {t_cfg}: one translation unit compiles'; exit 11\n")
                            rep.counterexample(f"{lang}:mixed-tu-compiles", f"[{lang}] a translation unit with the support header and vt.A generated with {s_cfg} and vt.B "
                                               f"generated with {t_cfg} compiles (real compiler)", str(rd), True)
            compiles, err = _mixed_tu(lang, pathlib.Path(bout), pathlib.Path(bout), d)
            if not compiles:
                rep.unknown(f"{lang}:mixed-tu", f"identical option sets do not compile together in the mixed translation unit: {err[-200:]}")
            rep.extra.setdefault("mixed_translation_units_compiled", {})[lang] = mixed + 1
            # z3 finite-domain model
            S = {k: z3.Int(f"s_{k}") for k in opts}
            Tv = {k: z3.Int(f"t_{k}") for k in opts}
            dom = [z3.And(0 <= S[k], S[k] < len(opts[k]), 0 <= Tv[k], Tv[k] < len(opts[k])) for k in opts]

            def val(table, var, e):
                # value of emitted key e as a function of the option indices: the (at most one) driving option decides, else the base value
                drivers = [k for k in opts if any(table[k][v].get(e) != table[k][opts[k][0]].get(e) for v in opts[k])]
                expr = z3.IntVal(table[list(opts)[0]][opts[list(opts)[0]][0]].get(e, -1))
                for k in drivers:
                    for i, v in enumerate(opts[k]):
                        if i:
                            expr = z3.If(var[k] == i, z3.IntVal(table[k][v].get(e, -1)), expr)
                return expr
            all_ok = z3.And(*[val(table_d, S, e) == val(table_a, Tv, e) for e in emitted if e in basr])
            differ = z3.Or(*[S[k] != Tv[k] for k in opts])
            for name, q in (("different option sets whose headers satisfy every static assertion", z3.And(differ, all_ok)),
                            ("identical option sets rejected by a static assertion", z3.And(z3.Not(differ), z3.Not(all_ok)))):
                sol = z3.Solver()
                sol.add(*dom)
                sol.add(q)
                t0 = time.time()
                r = sol.check()
                rep.solver_s += time.time() - t0
                if r == z3.unsat:
                    rep.discharged(1, key=f"{lang}:{name}", sample=dict(language=lang, query="EXISTS " + name, verdict="unsat",
                                                                       option_sets=int(__import__("math").prod(len(v) for v in opts.values())), emitted_keys=len(emitted)))
                elif r == z3.sat:
                    m = sol.model()
                    s_cfg = {k: opts[k][m.eval(S[k], model_completion=True).as_long()] for k in opts}
                    t_cfg = {k: opts[k][m.eval(Tv[k], model_completion=True).as_long()] for k in opts}
                    ok, how, rd = _replay(lang, s_cfg, t_cfg, expect_compiles=name.startswith("different"))
                    rep.counterexample(f"{lang}:{'mismatch-compiles' if name.startswith('different') else 'identical-rejected'}",
                                       f"[{lang}] {name}: support generated with {s_cfg}, type header with {t_cfg} :: {how}", rd, ok)
                else:
                    rep.unknown(f"{lang}:{name}", "solver unknown")
    rep.functions = ["c/cpp support header templates (option defines / constexpr options)", "c/cpp type header base.j2 (static_assert loop)", "nunavut.lang.c.filter_to_static_assertion_value"]
    rep.bounds = dict(c={k: v for k, v in C_OPTS.items()}, cpp_additional=dict(std=CPP_OPTS["std"]), pairs="all ordered pairs of option sets at once (finite-domain variables)")
    rep.assumptions = ["rendering of each emitted key depends on one option only (spot-validated on seeded multi-option renders)",
                       "free-form string options are limited to their documented defaults (crc32 cannot be injective on all strings)",
                       "the static_assert really fires when the compared numbers differ (compiler semantics, confirmed only in replays)"]
    rep.not_covered = ["the compiler itself (the mixed-translation-unit runs are concrete compilations, labelled as such)",
                       "types other than vt.A.1.0 / vt.B.1.0 (the assertion block does not depend on the type)"]
    rep.extra["explanation"] = ("weak use of a solver, labelled as such: finite-domain SMT over tables extracted from real renders decides, for all pairs of option "
                                "sets, that a difference in any documented option value makes some emitted assertion false and equal sets make none false")
    rep.extra["trusted_base"] = ["z3", "20-line regex extraction of the two emitted forms", "nnvg from /repo"]
    return rep.write()


def _mixed_tu(lang: str, s_out: pathlib.Path, t_out: pathlib.Path, scratch: pathlib.Path) -> typing.Tuple[bool, str]:
    """support header + vt/A from the render s_out, vt/B + vt/sub/C from the render t_out, one TU that includes vt/B"""
    import shutil
    import tempfile
    ext = "h" if lang == "c" else "hpp"
    mix = pathlib.Path(tempfile.mkdtemp(prefix="mix_", dir=str(scratch)))
    try:
        shutil.copytree(t_out / "vt", mix / "vt")
        shutil.copytree(s_out / "nunavut", mix / "nunavut")
        shutil.copy(s_out / "vt" / f"A_1_0.{ext}", mix / "vt" / f"A_1_0.{ext}")
        tu = mix / ("tu.c" if lang == "c" else "tu.cpp")
        tu.write_text(f"#include <vt/B_1_0.{ext}>\nint main(void){{return 0;}}\n")
        p = subprocess.run([("gcc" if lang == "c" else "g++"), ("-std=c11" if lang == "c" else "-std=c++17"), "-fsyntax-only", "-DNUNAVUT_ASSERT(x)=(void)(x)",
                            "-I", str(mix), str(tu)], stdout=subprocess.PIPE, stderr=subprocess.PIPE, text=True)
        return p.returncode == 0, p.stderr
    finally:
        shutil.rmtree(mix, ignore_errors=True)


def _replay(lang: str, s_cfg: dict, t_cfg: dict, expect_compiles: bool) -> typing.Tuple[bool, str, str]:
    rd = common.replay_dir("C17", dict(lang=lang, s=s_cfg, t=t_cfg))
    with common.scratch("nvc17r_") as d:
        build.nnvg(lang, d / "s", NS, opts=_flags(lang, s_cfg))
        build.nnvg(lang, d / "t", NS, opts=_flags(lang, t_cfg))
        ext = "h" if lang == "c" else "hpp"
        # support header from option set s, type header from option set t
        (d / "mix" / "nunavut" / "support").mkdir(parents=True)
        (d / "mix" / "vt").mkdir(parents=True)
        (d / "mix" / "nunavut" / "support" / f"serialization.{ext}").write_text((d / "s" / "nunavut" / "support" / f"serialization.{ext}").read_text())
        (d / "mix" / "vt" / f"A_1_0.{ext}").write_text((d / "t" / "vt" / f"A_1_0.{ext}").read_text())
        tu = d / ("tu.c" if lang == "c" else "tu.cpp")
        tu.write_text(f"#include <vt/A_1_0.{ext}>\nint main(void){{return 0;}}\n")
        std = "-std=c11" if lang == "c" else "-std=c++17"
        p = subprocess.run([("gcc" if lang == "c" else "g++"), std, "-fsyntax-only", "-DNUNAVUT_ASSERT(x)=(void)(x)", "-I", str(d / "mix"), str(tu)],
                           stdout=subprocess.PIPE, stderr=subprocess.PIPE, text=True)
        compiles = p.returncode == 0
        (rd / "replay.sh").write_text(f"#!/bin/bash\necho 'generate support with {s_cfg} and vt/A_1_0 with {t_cfg}, compile together: compiles={compiles}'; exit 11\n")
        return (compiles == expect_compiles), f"compiled together: {compiles} ({p.stderr[-160:]!r})", str(rd)


if __name__ == "__main__":
    sys.exit(main(sys.argv[1] if len(sys.argv) > 1 else "quick"))
