"""C03 -- round trip and cross-option agreement of generated codecs (E1 llsym; none of the queries uses the wire reference model).

Family 1 (chain): symbolic object -> serialize -> (its output terms are the input of) deserialize -> serialize again, continuing the
   symbolic execution from each end state: decoded == cast-adjusted original on the meaningful fields; second bytes == first bytes.
Family 2 (cross-option): two builds generated with different option sets run on the SAME symbolic input; path summaries are paired and
   (rc, size, bytes) / (rc, consumed, meaningful fields) must agree under the conjunction of both path conditions.
"""
from __future__ import annotations

import os
import sys
import time
import typing

import pydsdl
import z3

from lib import common
from llsym import codec, core, dsdlspec as D
from llsym.core import bv
from checks import codec_common as cc
from checks import py_common

_TYPES = []
_TIER = ["quick"]


# ---------------------------------------------------------------------------------------------- family 1: chain
def _rt_expect(v: typing.Any, w: typing.Any, ch: D.Chooser, conj: typing.List[typing.Any]) -> None:
    """append to conj: decoded value tree w equals the cast-adjusted original v on the meaningful fields (shape chosen from v)"""
    k, t = v[0], v[1]
    if k == "prim":
        st, got = v[2], w[2]
        if isinstance(t, pydsdl.BooleanType):
            conj.append(got == z3.ZeroExt(7, D.cast_adjust(t, st)))
        elif isinstance(t, pydsdl.FloatType):
            if t.bit_length == 16:
                h = z3.fpToIEEEBV(z3.fpFPToFP(z3.RNE(), z3.fpBVToFP(got, z3.Float32()), z3.Float16()))
                isnan = z3.UGT(st & 0x7FFFFFFF, 0x7F800000)
                conj.append(z3.If(isnan, z3.UGT(got & 0x7FFFFFFF, 0x7F800000), z3.And(D.f16_unpack_ok(h, got), D.f16_wire_ok(t, st, h))))
            else:
                conj.append(got == st)
        else:
            a = D.cast_adjust(t, st)
            W = st.size()
            conj.append(got == ((z3.SignExt(W - t.bit_length, a) if isinstance(t, pydsdl.SignedIntegerType) else z3.ZeroExt(W - t.bit_length, a)) if W > t.bit_length else a))
        return
    if k in ("arr", "bits"):
        n = t.capacity
        if v[3] is not None:
            n = ch.choose(v[3], t.capacity)
            if n is None:
                raise D.Invalid(D.ERR_ARRAY)
            conj.append(w[3] == n)
        if k == "bits":
            for i in range(n):
                conj.append(z3.Extract(i % 8, i % 8, w[2][i // 8]) == z3.Extract(i % 8, i % 8, v[2][i // 8]))
        else:
            for i in range(n):
                _rt_expect(v[2][i], w[2][i], ch, conj)
        return
    if k == "struct":
        wm = dict(w[2])
        for name, e in v[2]:
            _rt_expect(e, wm[name], ch, conj)
        return
    it = D.inner(t)
    n = ch.choose(v[2], len(it.fields) - 1)
    if n is None:
        raise D.Invalid(D.ERR_TAG)
    conj.append(w[2] == n)
    _rt_expect(v[3][n][1], dict(w[3])[v[3][n][0]], ch, conj)


def chain_queries(tu: codec.TypeUnit) -> codec.QueryLog:
    log = codec.QueryLog()
    eng = tu.engine(False)
    mx = codec.max_bytes(tu.t)
    st, obj0, buf0, pobj, pbuf, psz, val = codec.ser_setup(tu, mx, eng)
    solver = z3.Solver()
    solver.set("timeout", codec.QUERY_TIMEOUT_MS)
    try:
        res1 = eng.run("h_ser", [pobj, pbuf, psz], st)
    except core.Unsupported as e:
        log.unknown.append(f"unsupported: {e}")
        return log
    for k1, s1, r1 in res1:
        log.paths += 1
        if k1 != "ok":
            log.cex.append(dict(fn="ser", kind=r1.kind, what=str(r1), bufsize=mx, inputs=codec._inputs(codec._model(codec._pc(s1)), obj0, buf0)))
            continue
        if not (isinstance(r1, int) and r1 == 0):
            continue       # rejected values have no round trip
        try:
            n1 = eng.concretize(s1, eng.load(s1, core.IntT(64), psz))
        except (core.NeedConcrete, core.Unsupported):
            log.unknown.append("serialized size is not determined by the path")
            continue
        bytes1 = list(s1.objs[pbuf.obj].data[:n1])
        s1.frames = []
        pdst = s1.new_obj(tu.size, "dst", core.sym_bytes("p", tu.size))
        # the decoder sees exactly the n1 bytes produced (a separate, exactly-sized, read-only object)
        pin = s1.new_obj(n1, "wire", list(bytes1), writable=False)
        psz2 = s1.new_obj(8, "size2", codec._le(n1))
        try:
            res2 = eng.run("h_des", [pdst, pin, psz2], s1)
        except core.Unsupported as e:
            log.unknown.append(f"unsupported: {e}")
            continue
        for k2, s2, r2 in res2:
            log.paths += 1
            if k2 != "ok":
                log.cex.append(dict(fn="des", kind=r2.kind, what="in round trip: " + str(r2), L=n1, inputs=codec._inputs(codec._model(codec._pc(s2)), obj0, buf0)))
                continue
            consumed = eng.load(s2, core.IntT(64), psz2)
            dec = D.c_read(tu.t, "", tu.lay, s2.objs[pdst.obj].data)
            gen = codec._shapes_under(solver, codec._pc(s2), log)
            for m in gen:
                ch = D.Chooser(m)
                conj: typing.List[typing.Any] = [codec._rc8(r2) == 0, bv(consumed, 64) == n1]
                try:
                    _rt_expect(val, dec, ch, conj)
                except D.Invalid:
                    conj = [z3.BoolVal(False)]       # the serializer accepted a value that has no representation
                bad = codec._check(solver, codec._pc(s2) + [ch.cond()], z3.And(*conj), log)
                if bad is not None:
                    log.cex.append(dict(fn="ser", kind="roundtrip-value", what="deserialize(serialize(x)) differs from the cast-adjusted x (or is rejected / consumes a different size)",
                                        bufsize=mx, inputs=codec._inputs(bad, obj0, buf0)))
                gen.send(ch.cond())
            if not (isinstance(r2, int) and r2 == 0):
                continue
            # second serialization from the decoded object
            s2.frames = []
            pbuf3 = s2.new_obj(mx, "buf3", core.sym_bytes("c", mx))
            psz3 = s2.new_obj(8, "size3", codec._le(mx))
            try:
                res3 = eng.run("h_ser", [pdst, pbuf3, psz3], s2)
            except core.Unsupported as e:
                log.unknown.append(f"unsupported: {e}")
                continue
            for k3, s3, r3 in res3:
                log.paths += 1
                if k3 != "ok":
                    log.cex.append(dict(fn="ser", kind=r3.kind, what="in re-serialization: " + str(r3), bufsize=mx, inputs=codec._inputs(codec._model(codec._pc(s3)), obj0, buf0)))
                    continue
                n3 = eng.load(s3, core.IntT(64), psz3)
                b3 = s3.objs[pbuf3.obj].data
                goal = z3.And(codec._rc8(r3) == 0, bv(n3, 64) == n1, *[bv(x, 8) == bv(y, 8) for x, y in zip(bytes1, b3)])
                bad = codec._check(solver, codec._pc(s3), goal, log)
                if bad is not None:
                    log.cex.append(dict(fn="ser", kind="roundtrip-bytes", what="serialize(deserialize(serialize(x))) differs from serialize(x)", bufsize=mx,
                                        inputs=codec._inputs(bad, obj0, buf0)))
    log.solver_s += eng.stats["solver_time"]
    return log


# ---------------------------------------------------------------------------------------------- family 2: cross-option
def cross_ser(tuA: codec.TypeUnit, tuB: codec.TypeUnit) -> codec.QueryLog:
    log = codec.QueryLog()
    mx = codec.max_bytes(tuA.t)
    outs = []
    for tu in (tuA, tuB):
        eng = tu.engine(False)
        st, obj0, buf0, pobj, pbuf, psz, val = codec.ser_setup(tu, mx, eng)
        try:
            res = eng.run("h_ser", [pobj, pbuf, psz], st)
        except core.Unsupported as e:
            log.unknown.append(f"unsupported: {e}")
            return log
        summ = []
        for k, s2, r in res:
            log.paths += 1
            if k != "ok":
                log.cex.append(dict(fn="ser", kind=r.kind, what=str(r), bufsize=mx, inputs=codec._inputs(codec._model(codec._pc(s2)), obj0, buf0)))
                continue
            summ.append((codec._pc(s2), r, eng.load(s2, core.IntT(64), psz), list(s2.objs[pbuf.obj].data)))
        outs.append((summ, obj0, buf0))
    solver = z3.Solver()
    solver.set("timeout", codec.QUERY_TIMEOUT_MS)
    (sa, obj0, buf0), (sb, _, _) = outs
    for pca, ra, na, ba in sa:
        solver.push()
        solver.add(*pca)
        for pcb, rb, nb, bb in sb:
            # bytes are compared on success, over the reported size
            same = z3.And(codec._rc8(ra) == codec._rc8(rb),
                          z3.Implies(codec._rc8(ra) == 0, z3.And(bv(na, 64) == bv(nb, 64), *[z3.Implies(z3.UGT(bv(na, 64), i), bv(x, 8) == bv(y, 8)) for i, (x, y) in enumerate(zip(ba, bb))])))
            bad = codec._check(solver, pcb, same, log)
            if bad is not None:
                log.cex.append(dict(fn="ser", kind="cross-option", what="the two builds serialize the same value differently", bufsize=mx, inputs=codec._inputs(bad, obj0, buf0)))
        solver.pop()
    return log


def cross_des(tuA: codec.TypeUnit, tuB: codec.TypeUnit, L: int) -> codec.QueryLog:
    log = codec.QueryLog()
    outs = []
    for tu in (tuA, tuB):
        eng = tu.engine(False)
        st, buf0, dst0, pbuf, pdst, psz = codec.des_setup(tu, L, False)
        try:
            res = eng.run("h_des", [pdst, pbuf, psz], st)
        except core.Unsupported as e:
            log.unknown.append(f"unsupported: {e}")
            return log
        summ = []
        for k, s2, r in res:
            log.paths += 1
            if k != "ok":
                log.cex.append(dict(fn="des", kind=r.kind, what=str(r), L=L, inputs=codec._inputs(codec._model(codec._pc(s2)), [], buf0, dst0)))
                continue
            summ.append((codec._pc(s2), r, eng.load(s2, core.IntT(64), psz), D.c_read(tu.t, "", tu.lay, s2.objs[pdst.obj].data)))
        outs.append((summ, buf0, dst0))
    solver = z3.Solver()
    solver.set("timeout", codec.QUERY_TIMEOUT_MS)
    (sa, buf0, dst0), (sb, _, _) = outs
    t = tuA.t
    for pca, ra, na, va in sa:
        for pcb, rb, nb, vb in sb:
            pcs = pca + pcb
            gen = codec._shapes_under(solver, pcs, log)
            for m in gen:
                ch = D.Chooser(m)
                try:
                    exp, _ = D.des_top(t, buf0, ch)       # used ONLY to know which fields are meaningful for this wire shape
                    la, lb = D.meaningful_leaves(exp, va), D.meaningful_leaves(exp, vb)
                    same = z3.And(codec._rc8(ra) == codec._rc8(rb), bv(na, 64) == bv(nb, 64), z3.Implies(codec._rc8(ra) == 0, z3.And(*[x == y for x, y in zip(la, lb)]) if la else True))
                except D.Invalid:
                    same = codec._rc8(ra) == codec._rc8(rb)
                bad = codec._check(solver, pcs + [ch.cond()], same, log)
                if bad is not None:
                    log.cex.append(dict(fn="des", kind="cross-option", what="the two builds decode the same bytes differently", L=L, inputs=codec._inputs(bad, [], buf0, dst0)))
                gen.send(ch.cond())
    return log


def replay_c03(tu: codec.TypeUnit, cex: dict, on: str) -> typing.Tuple[bool, str]:
    """native replay of the C03 counterexample kinds (everything else: the generic replay)"""
    kind = cex["kind"]
    inp = cex.get("inputs")
    if kind not in ("roundtrip-value", "roundtrip-bytes", "cross-option") or not inp:
        return codec.replay(tu, cex)
    t = tu.t
    mx = codec.max_bytes(t)
    if kind == "cross-option":
        a, b = [x.strip() for x in on.split(" vs ")]
        tub = cc.unit_for(t, b, "B")
        fn = cex["fn"]
        n = cex["bufsize"] if fn == "ser" else cex["L"]
        objhex = inp["obj"] if fn == "ser" else inp["dst"]
        r1, o1, _ = codec.native_run(tu, fn, n, objhex, inp["buf"])
        r2, o2, _ = codec.native_run(tub, fn, n, objhex, inp["buf"])
        if r1 != 0 or r2 != 0:
            return True, "native run crashed"
        if fn == "ser":
            differs = o1["rc"] != o2["rc"] or (o1["rc"] == 0 and (o1["size"] != o2["size"] or o1["buf"][:o1["size"]] != o2["buf"][:o2["size"]]))
            return differs, f"{a}: rc={o1['rc']} {o1['buf'][:o1['size']].hex()} / {b}: rc={o2['rc']} {o2['buf'][:o2['size']].hex()}"
        buf = [z3.BitVecVal(x, 8) for x in bytes.fromhex(inp["buf"])]
        differs = o1["rc"] != o2["rc"] or o1["size"] != o2["size"] or (o1["rc"] == 0 and codec._meaningful_differs2(tu, buf, o1, o2))
        return differs, f"{a}: rc={o1['rc']} size={o1['size']} obj={o1['obj'].hex()[:40]} / {b}: rc={o2['rc']} size={o2['size']} obj={o2['obj'].hex()[:40]}"
    # round trip: serialize -> deserialize exactly the produced bytes -> serialize again
    r1, o1, _ = codec.native_run(tu, "ser", mx, inp["obj"], "00" * mx)
    if r1 != 0:
        return True, "native run crashed"
    if o1["rc"] != 0:
        return False, f"first serialization rejected natively rc={o1['rc']}"
    wire = o1["buf"][:o1["size"]]
    r2, o2, _ = codec.native_run(tu, "des", len(wire), "5a" * tu.size, wire.hex())
    if r2 != 0:
        return True, "native run crashed"
    if o2["rc"] != 0 or o2["size"] != len(wire):
        return True, f"deserialize(serialize(x)) -> rc={o2['rc']} consumed={o2['size']} of {len(wire)}"
    if kind == "roundtrip-bytes":
        r3, o3, _ = codec.native_run(tu, "ser", mx, o2["obj"].hex(), "ff" * mx)
        differs = r3 != 0 or o3["rc"] != 0 or o3["buf"][:o3["size"]] != wire
        return differs, f"first={wire.hex()} second={o3.get('buf', b'')[:o3.get('size', 0)].hex()} rc={o3.get('rc')}"
    v = D.c_read(t, "", tu.lay, [z3.BitVecVal(x, 8) for x in bytes.fromhex(inp["obj"])])
    w = D.c_read(t, "", tu.lay, [z3.BitVecVal(x, 8) for x in o2["obj"]])
    conj: typing.List[typing.Any] = []
    try:
        _rt_expect(v, w, D.Chooser(codec._model([])), conj)
    except D.Invalid:
        return True, "serializer accepted a value without representation"
    s = z3.Solver()
    s.add(z3.Not(z3.And(*conj)) if conj else z3.BoolVal(False))
    bad = s.check() == z3.sat
    return bad, f"wire={wire.hex()} decoded object={o2['obj'].hex()[:64]} differs from the cast-adjusted original: {bad}"


PAIRS_QUICK = [("default", "little"), ("default", "any+asserts"), ("default", "cpp14")]
PAIRS_ALL = [("default", "little"), ("default", "any+asserts"), ("little", "little+asserts"), ("any+asserts", "little+asserts"),
             ("default", "cpp14"), ("cpp14", "cpp17"), ("cpp14", "cpp14+little+asserts")]


def _work(a):
    if a[0] == "py":
        return py_common.work((a[1], a[2], _TIER[0]))
    ti, kind, on_a, on_b = a
    t = _TYPES[ti]
    out = []
    if cc.ser_only(t):
        lg = codec.QueryLog(); lg.notes.append("NOT COVERED: serialization-only corpus type (round trip and cross-option deserialization outside the budget)")
        return [(ti, on_a, "not covered", lg, None, 0.0)]
    try:
        tua = cc.unit_for(t, on_a, "B")
        tub = cc.unit_for(t, on_b, "B") if on_b else None
    except cc.NotCovered as e:
        lg = codec.QueryLog(); lg.notes.append(f"NOT COVERED [{on_a}{' vs ' + on_b if on_b else ''}]: {e}")
        return [(ti, on_a, "not covered", lg, None, 0.0)]
    except Exception as e:
        lg = codec.QueryLog(); lg.unknown.append(f"build failed: {str(e)[-300:]}")
        return [(ti, on_a, "build", lg, None, 0.0)]
    t0 = time.time()
    try:
        if kind == "chain":
            out.append((ti, on_a, "chain serialize->deserialize->serialize", chain_queries(tua), tua, time.time() - t0))
        else:
            out.append((ti, f"{on_a} vs {on_b}", "cross-option serialize", cross_ser(tua, tub), tua, time.time() - t0))
            mx = codec.max_bytes(t)
            for L in sorted({0, 1, (mx + 1) // 2, mx, mx + 1}) if _TIER[0] == "quick" else cc.des_lengths(t, "thorough"):
                t0 = time.time()
                out.append((ti, f"{on_a} vs {on_b}", f"cross-option deserialize L={L}", cross_des(tua, tub, L), tua, time.time() - t0))
    except Exception as e:
        lg = codec.QueryLog(); lg.unknown.append(f"{type(e).__name__}: {str(e)[-300:]}")
        out.append((ti, on_a, kind, lg, tua, time.time() - t0))
    return out


# ---------------------------------------------------------------------------------------------- cross-target C <-> Python, float16
def _cross_target_float16(rep: common.Report, d) -> None:
    """'The C, C++ and Python targets produce identical bytes for the same value': for a float16 field every float32 value is a common value
    (Python holds it as a double, exactly).  Python packs with struct '<e' = round to nearest, ties to EVEN (CPython; modelled and co-simulated in
    the pysym checks).  The C support header's nunavutFloat16Pack is turned into a z3 term from its IR; asked for all 2^32 inputs:
      main  : some non-NaN x that is NOT a rounding tie packs differently in C and in Python        (must be unsat)
      region: some x that IS a tie (halfway between two halves) packs differently                    (listed finding if sat, replayed natively)"""
    import struct
    import subprocess
    from llsym import build, unit
    from checks import C14
    out = d / "f16_any"
    try:
        build.nnvg("c", out, None, opts=C14.OPTSETS["any"])
        tu = out / "w.c"
        tu.write_text(unit.wrapper_tu(C14.INC, C14.PRIMS))
        mod = core.parse_module(build.c_to_ir(tu, [out], "A", []))
        eng = core.Engine(mod, check_ub=False)
        x = z3.BitVec("x", 32)
        t = None
        for kind, s2, r in eng.run("w_F16Pack", [x], core.State()):
            assert kind == "ok"
            pc = z3.And(*[c for c in s2.pc if not isinstance(c, bool)]) if s2.pc else z3.BoolVal(True)
            rb = bv(r, 16)
            t = rb if t is None else z3.If(pc, rb, t)
    except Exception as e:
        rep.unknown("cross-target:float16", f"could not build the term: {type(e).__name__}: {str(e)[-200:]}")
        return
    fx = z3.fpBVToFP(x, z3.Float32())
    rne = z3.fpToIEEEBV(z3.fpFPToFP(z3.RNE(), fx, z3.Float16()))
    rna = z3.fpToIEEEBV(z3.fpFPToFP(z3.RNA(), fx, z3.Float16()))
    for name, region in (("off-ties", rne == rna), ("ties", rne != rna)):
        s = z3.Solver()
        s.set("timeout", 300000)
        s.add(z3.Not(z3.fpIsNaN(fx)), t != rne, region)
        t0 = time.time()
        r = s.check()
        rep.solver_s += time.time() - t0
        if r == z3.unsat:
            rep.discharged(1, key=f"cross-target:float16:{name}", sample=dict(query=f"EXISTS float32 x ({name}): nunavutFloat16Pack(x) != the half Python's struct.pack('<e') produces",
                                                                               verdict="unsat over all 2^32 inputs", wall_s=round(time.time() - t0, 2)))
            continue
        if r != z3.sat:
            rep.unknown(f"cross-target:float16:{name}", "solver unknown")
            continue
        xv = s.model()[x].as_long()
        # native replay: the real header compiled with gcc vs CPython's struct.pack
        drv = out / "f16drv.c"
        drv.write_text(f"#include {C14.INC}\n#include <stdio.h>\n#include <string.h>\nint main(void){{ uint32_t b = {xv}u; float f; memcpy(&f, &b, 4); "
                       "printf(\"%u\\n\", (unsigned) nunavutFloat16Pack(f)); return 0; }\n")
        exe = build.native(drv, out / "f16drv", [out])
        c_half = int(subprocess.run([str(exe)], stdout=subprocess.PIPE, text=True, check=True).stdout.strip())
        fval = struct.unpack("<f", struct.pack("<I", xv))[0]
        py_half = struct.unpack("<H", struct.pack("<e", fval))[0]
        rd = common.replay_dir("C03", dict(f16=xv))
        (rd / "replay.sh").write_text(f"#!/bin/bash\n# float32 bit pattern {xv:#010x} = {fval!r}: C nunavutFloat16Pack vs Python struct.pack('<e')\n"
                                      f"python3 -c \"import struct; print('python', hex(struct.unpack('<H', struct.pack('<e', {fval!r}))[0]), 'C', hex({c_half}))\"; exit 11\n")
        os.chmod(rd / "replay.sh", 0o755)
        rep.counterexample("f16-tie-rounding-c-vs-python" if name == "ties" else "f16-c-vs-python",
                           f"float16 field, value {fval!r} (float32 {xv:#010x}{', exactly halfway between two half-precision values' if name == 'ties' else ''}): "
                           f"C packs {c_half:#06x}, Python packs {py_half:#06x}", str(rd), c_half != py_half)


def main(tier: str) -> int:
    rep = common.Report("C03", tier, "other")
    _TIER[0] = tier
    pairs = PAIRS_QUICK if tier == "quick" else PAIRS_ALL
    optnames = sorted({o for p in pairs for o in p})
    with common.scratch("nvc03_") as d:
        types, feats = cc.prepare(tier, d, optnames)
        _TYPES[:] = types
        tasks = [(i, "chain", on, None) for on in (("default", "little", "cpp14") if tier == "quick" else optnames) for i in range(len(types))]
        tasks += [(i, "cross", a, b) for a, b in pairs for i in range(len(types))]
        py_common.generate(d, d / "dsdl" / "vt")
        py_common.TYPES[:] = types
        tasks += [("py", "rt", i) for i in range(len(types))]
        for res in common.pmap(_work, tasks):
            for ti, on, what, lg, tu, wall in res:
                cc.record(rep, types[ti], on, what, lg, tu, wall, replayer=py_common.replayer(types[ti]) if on == "py" else replay_c03)
        py_common.cosim(rep, types, per_type=1)
        _cross_target_float16(rep, d)
        rep.functions = ["<T>_serialize_ and <T>_deserialize_ of every corpus type, chained (end states of one run are the start states of the next) and paired across builds"]
        rep.bounds = dict(types=len(types), chain="serialize at the maximum size, deserialize exactly the produced bytes, serialize again",
                          option_pairs=[f"{a} vs {b}" for a, b in pairs], cross_deserialize_lengths=("{0,1,ceil(max/2),max,max+1}" if tier == "quick" else "0..max(extent,max)+2"),
                          data="all object bytes / all buffer bytes symbolic")
    rep.assumptions = ["bool storage bytes are 0 or 1", "cast-mode adjustment of integers/floats is stated directly on the field terms (saturate/truncate, float16 faithful "
                       "rounding); the wire layout reference model is NOT used, except to tell which decoded fields are meaningful for a wire shape",
                       "cross-target: C <-> C++ is covered through the mirror harness (valid objects only on the C++ side); Python: the round trip is decided "
                       "here (pysym); agreement of Python with C/C++ follows, for the integer/boolean/array/union/delimiter layout, from C01 and C02 deciding each "
                       "target against the same reference model over the same corpus; for float16 fields it is decided here directly over all 2^32 float32 values "
                       "(C pack term from the IR vs round-to-nearest-even, which is what CPython's struct.pack does): agreement everywhere except exact ties "
                       "(listed finding); float32/float64 fields carry the common value's bit pattern in all targets",
                       "Python round trip: scalar float fields are assumed not NaN (payloads are not modelled)"] + py_common.ASSUMPTIONS
    rep.functions.append("Python target: <T>._serialize_ -> <T>._deserialize_ -> <T>._serialize_ of every corpus type in one pysym run per value shape")
    rep.not_covered = ["direct C <-> Python cross-target queries (see assumptions)", "C++ pmr/cetl allocator and container flavours, C++ bit arrays", "types not in the corpus"]
    rep.extra["explanation"] = ("llsym: symbolic execution continued across serialize -> deserialize -> serialize; z3 proves decoded == cast-adjusted original and "
                                "byte-identical re-serialization on every path; two option builds executed on the same symbolic input and their path summaries paired")
    rep.extra["trusted_base"] = ["clang 14", "z3 5.1", "llsym interpreter", "pydsdl"]
    return rep.write()


if __name__ == "__main__":
    sys.exit(main(sys.argv[1] if len(sys.argv) > 1 else "quick"))
