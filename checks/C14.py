"""C14 -- support-library bit primitives (E1 llsym on the generated C support header; E3 float16 lemmas on IR-extracted terms).

Shape parameters (bit offsets, bit lengths, buffer sizes) are iterated over the whole stated range; all data (buffer
contents, values) is symbolic and quantified by z3.  Every buffer is an exactly-sized object, so any spill is an
out-of-bounds obligation of the interpreter, not a silent write.
"""
from __future__ import annotations

import itertools
import json
import os
import pathlib
import random
import sys
import time
import typing

import z3

from lib import common
from llsym import build, core, unit
from llsym.core import bv
from llsym.unit import Prim, Case, bits_le

INC = "<nunavut/support/serialization.h>"
_F32 = "float f; memcpy(&f, &x, 4);"
_F64 = "double f; memcpy(&f, &x, 8);"
PRIMS = [
    Prim("Sat", "size", [("size", "n"), ("size", "off"), ("size", "len")], "return nunavutSaturateBufferFragmentBitLength(n, off, len);"),
    Prim("CopyBits", "void", [("buf", "dst"), ("size", "doff"), ("size", "len"), ("cbuf", "src"), ("size", "soff")],
         "nunavutCopyBits(dst, doff, len, src, soff);"),
    Prim("GetBits", "void", [("buf", "out"), ("cbuf", "buf"), ("size", "n"), ("size", "off"), ("size", "len")], "nunavutGetBits(out, buf, n, off, len);"),
    Prim("SetBit", "i8", [("buf", "buf"), ("size", "n"), ("size", "off"), ("u8", "v")], "return nunavutSetBit(buf, n, off, v != 0);"),
    Prim("SetUxx", "i8", [("buf", "buf"), ("size", "n"), ("size", "off"), ("u64", "v"), ("u8", "len")], "return nunavutSetUxx(buf, n, off, v, len);"),
    Prim("SetIxx", "i8", [("buf", "buf"), ("size", "n"), ("size", "off"), ("u64", "v"), ("u8", "len")], "return nunavutSetIxx(buf, n, off, (int64_t) v, len);"),
    Prim("GetBit", "bool", [("cbuf", "buf"), ("size", "n"), ("size", "off")], "return nunavutGetBit(buf, n, off);"),
]
for _w in (8, 16, 32, 64):
    PRIMS.append(Prim(f"GetU{_w}", f"u{_w}", [("cbuf", "buf"), ("size", "n"), ("size", "off"), ("u8", "len")], f"return nunavutGetU{_w}(buf, n, off, len);"))
    PRIMS.append(Prim(f"GetI{_w}", f"u{_w}", [("cbuf", "buf"), ("size", "n"), ("size", "off"), ("u8", "len")], f"return (uint{_w}_t) nunavutGetI{_w}(buf, n, off, len);"))
PRIMS += [
    Prim("F16Pack", "u16", [("u32", "x")], _F32 + " return nunavutFloat16Pack(f);"),
    Prim("F16Unpack", "u32", [("u16", "h")], "float f = nunavutFloat16Unpack(h); uint32_t r; memcpy(&r, &f, 4); return r;"),
    Prim("SetF16", "i8", [("buf", "buf"), ("size", "n"), ("size", "off"), ("u32", "x")], _F32 + " return nunavutSetF16(buf, n, off, f);"),
    Prim("SetF32", "i8", [("buf", "buf"), ("size", "n"), ("size", "off"), ("u32", "x")], _F32 + " return nunavutSetF32(buf, n, off, f);"),
    Prim("SetF64", "i8", [("buf", "buf"), ("size", "n"), ("size", "off"), ("u64", "x")], _F64 + " return nunavutSetF64(buf, n, off, f);"),
    Prim("GetF16", "u32", [("cbuf", "buf"), ("size", "n"), ("size", "off")], "float f = nunavutGetF16(buf, n, off); uint32_t r; memcpy(&r, &f, 4); return r;"),
    Prim("GetF32", "u32", [("cbuf", "buf"), ("size", "n"), ("size", "off")], "float f = nunavutGetF32(buf, n, off); uint32_t r; memcpy(&r, &f, 4); return r;"),
    Prim("GetF64", "u64", [("cbuf", "buf"), ("size", "n"), ("size", "off")], "double f = nunavutGetF64(buf, n, off); uint64_t r; memcpy(&r, &f, 8); return r;"),
]
PR = {p.name: p for p in PRIMS}
TOO_SMALL = (-3) & 0xFF

# ---- C++ support library: bitspan / const_bitspan members behind extern "C" wrappers with the SAME names and argument lists
INC_CPP = "<nunavut/support/serialization.hpp>"
_NS = "nunavut::support::"
_RC = "return r ? (int8_t) 0 : (int8_t)(-(int) r.error());"
_FB32 = "float f; memcpy(&f, &x, 4);"
_FB64 = "double f; memcpy(&f, &x, 8);"
PRIMS_CPP = [
    Prim("Sat", "size", [("size", "n"), ("size", "off"), ("size", "len")],
         f"static uint8_t dummy[1]; return {_NS}const_bitspan(dummy, n, off).saturateBufferFragmentBitLength(len);"),
    Prim("CopyBits", "void", [("buf", "dst"), ("size", "doff"), ("size", "len"), ("cbuf", "src"), ("size", "soff")],
         f"{_NS}const_bitspan(src, (soff + len + 7U) / 8U, soff).copyTo({_NS}bitspan(dst, (doff + len + 7U) / 8U, doff), len);"),
    Prim("GetBits", "void", [("buf", "out"), ("cbuf", "buf"), ("size", "n"), ("size", "off"), ("size", "len")],
         f"{_NS}const_bitspan(buf, n, off).getBits({_NS}bytespan(out, (len + 7U) / 8U), len);"),
    Prim("SetBit", "i8", [("buf", "buf"), ("size", "n"), ("size", "off"), ("u8", "v")], f"auto r = {_NS}bitspan(buf, n, off).setBit(v != 0); {_RC}"),
    Prim("SetUxx", "i8", [("buf", "buf"), ("size", "n"), ("size", "off"), ("u64", "v"), ("u8", "len")], f"auto r = {_NS}bitspan(buf, n, off).setUxx(v, len); {_RC}"),
    Prim("SetIxx", "i8", [("buf", "buf"), ("size", "n"), ("size", "off"), ("u64", "v"), ("u8", "len")], f"auto r = {_NS}bitspan(buf, n, off).setIxx((int64_t) v, len); {_RC}"),
    Prim("GetBit", "bool", [("cbuf", "buf"), ("size", "n"), ("size", "off")], f"return {_NS}const_bitspan(buf, n, off).getBit();"),
    Prim("SetZeros", "i8", [("buf", "buf"), ("size", "n"), ("size", "off"), ("u8", "len")], f"auto r = {_NS}bitspan(buf, n, off).setZeros(len); {_RC}"),
]
for _w in (8, 16, 32, 64):
    PRIMS_CPP.append(Prim(f"GetU{_w}", f"u{_w}", [("cbuf", "buf"), ("size", "n"), ("size", "off"), ("u8", "len")], f"return {_NS}const_bitspan(buf, n, off).getU{_w}(len);"))
    PRIMS_CPP.append(Prim(f"GetI{_w}", f"u{_w}", [("cbuf", "buf"), ("size", "n"), ("size", "off"), ("u8", "len")], f"return (uint{_w}_t) {_NS}const_bitspan(buf, n, off).getI{_w}(len);"))
PRIMS_CPP += [
    Prim("SetF16", "i8", [("buf", "buf"), ("size", "n"), ("size", "off"), ("u32", "x")], f"{_FB32} auto r = {_NS}bitspan(buf, n, off).setF16(f); {_RC}"),
    Prim("SetF32", "i8", [("buf", "buf"), ("size", "n"), ("size", "off"), ("u32", "x")], f"{_FB32} auto r = {_NS}bitspan(buf, n, off).setF32(f); {_RC}"),
    Prim("SetF64", "i8", [("buf", "buf"), ("size", "n"), ("size", "off"), ("u64", "x")], f"{_FB64} auto r = {_NS}bitspan(buf, n, off).setF64(f); {_RC}"),
    Prim("GetF16", "u32", [("cbuf", "buf"), ("size", "n"), ("size", "off")], f"float f = {_NS}const_bitspan(buf, n, off).getF16(); uint32_t r; memcpy(&r, &f, 4); return r;"),
    Prim("GetF32", "u32", [("cbuf", "buf"), ("size", "n"), ("size", "off")], f"float f = {_NS}const_bitspan(buf, n, off).getF32(); uint32_t r; memcpy(&r, &f, 4); return r;"),
    Prim("GetF64", "u64", [("cbuf", "buf"), ("size", "n"), ("size", "off")], f"double f = {_NS}const_bitspan(buf, n, off).getF64(); uint64_t r; memcpy(&r, &f, 8); return r;"),
]
PR_CPP = {p.name: p for p in PRIMS_CPP}
CPP_OPTSETS = {"cpp14": dict(target_endianness="any", asserts=False, std="c++14"), "cpp14+little": dict(target_endianness="little", asserts=False, std="c++14")}

OPTSETS = {
    "any": dict(target_endianness="any", asserts=False),
    "little+asserts": dict(target_endianness="little", asserts=True),
    "little": dict(target_endianness="little", asserts=False),
    "any+asserts": dict(target_endianness="any", asserts=True),
}


# ---------------------------------------------------------------------------------------------- shapes
def shapes(tier: str, prim: str, asserts: bool) -> typing.Iterator[tuple]:
    q = tier == "quick"
    offs = range(0, 16) if q else range(0, 24)
    lens = range(0, 34) if q else range(0, 81)
    sizes = (0, 1, 4, 9) if q else range(0, 13)
    if prim == "Sat":
        yield ()
    elif prim == "CopyBits":
        for d, l, s in itertools.product(offs, lens, offs):
            yield (d, l, s, False)
        if not asserts:      # aligned, whole-byte overlapping copy within one object is a plain memmove (documented); a partial
            # last byte on overlapping ranges is NOT exercised: the header promises nothing there (see DESIGN.md, C14 oracle note)
            for d, l, s in itertools.product((0, 8, 16), (0, 8, 24), (0, 8, 16)):
                yield (d, l, s, True)
    elif prim == "GetBits":
        for n, o, l in itertools.product(sizes, offs, lens):
            yield (n, o, l)
        for n, o in ((2, 40), (2, 37), (0, 9)):          # offset beyond the end of the buffer
            for l in (0, 1, 8, 13):
                yield (n, o, l)
    elif prim in ("SetUxx", "SetIxx"):
        for n, o, l in itertools.product(sizes, offs, lens):
            yield (n, o, l)
    elif prim == "SetBit":
        for n, o in itertools.product(sizes, range(0, 100)):
            yield (n, o)
    elif prim == "SetZeros":
        for n, o, l in itertools.product(sizes, offs, range(0, 34) if q else range(0, 81)):
            yield (n, o, l)
    elif prim == "GetBit":
        for n, o in itertools.product(sizes, range(0, 100)):
            yield (n, o)
    elif prim.startswith("GetU") or prim.startswith("GetI"):
        ll = range(0, 34) if q else range(0, 72)
        for n, o, l in itertools.product(sizes, offs, ll):
            yield (n, o, l)
        for n, o in ((2, 40), (1, 8), (0, 3)):
            for l in (0, 1, 7, 8, 64):
                yield (n, o, l)
    elif prim in ("SetF16", "SetF32", "SetF64", "GetF16", "GetF32", "GetF64"):
        for n, o in itertools.product(range(0, 12), offs):
            yield (n, o)
    elif prim in ("F16Pack", "F16Unpack"):
        yield ()


# ---------------------------------------------------------------------------------------------- specifications (z3)
def _same(final, init):
    return z3.And(*[bv(a, 8) == bv(b, 8) for a, b in zip(final, init)]) if init else z3.BoolVal(True)


def _retv(r, bits):
    return bv(r, bits)


def _get_window(buf_bytes, nbytes_total, off, ln, width):
    """bits [off, off+ln) of the buffer, implicitly zero-extended past its end, as a `width`-bit vector (ln <= width)"""
    if ln == 0:
        return z3.BitVecVal(0, width)
    total = max(off + ln, 8 * len(buf_bytes), 1)
    whole = bits_le(buf_bytes, total)
    w = z3.Extract(off + ln - 1, off, whole)
    return z3.ZeroExt(width - ln, w) if width > ln else w


_ACTIVE = {"table": PR}


def make_case(eng: core.Engine, prim: str, shp: tuple) -> typing.Tuple[Case, typing.Callable]:
    """returns the case and spec(st, ret) -> z3 Bool that must hold on every path"""
    P = _ACTIVE["table"][prim]
    if prim == "Sat":
        c = Case(eng, P, {}, {})
        n, off, ln = c.sym["n"], c.sym["off"], c.sym["len"]
        if _ACTIVE["table"] is PR_CPP:
            c.st.pc.append(z3.ULE(off, (1 << 62)))
        c.st.pc.append(z3.ULE(n, (1 << 60)))     # buffer sizes up to 2^60 bytes (size*8 must not wrap: documented unit convention)
        bitsz = n * 8
        tail = z3.If(z3.UGE(off, bitsz), z3.BitVecVal(0, 64), bitsz - off)
        exp = z3.If(z3.ULE(ln, tail), ln, tail)
        return c, (lambda st, r: _retv(r, 64) == exp)
    if prim == "CopyBits":
        d, l, s, alias = shp
        if alias:
            size = (max(d, s) + l + 7) // 8
            c = Case(eng, P, {"dst": size}, {"doff": d, "len": l, "soff": s}, alias={"src": "dst"})
        else:
            c = Case(eng, P, {"dst": (d + l + 7) // 8, "src": (s + l + 7) // 8}, {"doff": d, "len": l, "soff": s})

        def spec(st, r, c=c, d=d, l=l, s=s, alias=alias):
            fin = c.final(st, "dst")
            nb = len(fin)
            if nb == 0:
                return z3.BoolVal(True)
            W = 8 * nb
            old = bits_le(c.init["dst"], W)
            got = bits_le(fin, W)
            if l == 0:
                return got == old
            srcw = _get_window(c.init["src"], None, s, l, W)
            msk = ((1 << l) - 1) << d
            exp = (old & z3.BitVecVal(~msk & ((1 << W) - 1), W)) | ((srcw << d) & z3.BitVecVal(msk, W))
            ok = got == exp
            if not alias:
                ok = z3.And(ok, _same(c.final(st, "src"), c.init["src"]))
            return ok
        return c, spec
    if prim == "GetBits":
        n, o, l = shp
        c = Case(eng, P, {"out": (l + 7) // 8, "buf": n}, {"n": n, "off": o, "len": l})

        def spec(st, r, c=c, n=n, o=o, l=l):
            fin = c.final(st, "out")
            if not fin:
                return z3.BoolVal(True)
            W = 8 * len(fin)
            return z3.And(bits_le(fin, W) == _get_window(c.init["buf"], n, o, l, W), _same(c.final(st, "buf"), c.init["buf"]))
        return c, spec
    if prim in ("SetUxx", "SetIxx", "SetBit", "SetF16", "SetF32", "SetF64"):
        if prim == "SetBit":
            n, o = shp
            l = 1
            c = Case(eng, P, {"buf": n}, {"n": n, "off": o})
            val = z3.If(c.sym["v"] != 0, z3.BitVecVal(1, 64), z3.BitVecVal(0, 64))
            fits = n * 8 > o
        elif prim in ("SetUxx", "SetIxx"):
            n, o, l = shp
            c = Case(eng, P, {"buf": n}, {"n": n, "off": o, "len": l})
            val = c.sym["v"]
            fits = n * 8 >= o + l
        else:
            n, o = shp
            l = {"SetF16": 16, "SetF32": 32, "SetF64": 64}[prim]
            c = Case(eng, P, {"buf": n}, {"n": n, "off": o})
            x = c.sym["x"]
            val = z3.ZeroExt(32, x) if prim == "SetF32" else x if prim == "SetF64" else None
            fits = n * 8 >= o + l

        def spec(st, r, c=c, n=n, o=o, l=l, val=val, fits=fits, prim=prim):
            fin = c.final(st, "buf")
            if not fits:
                return z3.And(_retv(r, 8) == TOO_SMALL, _same(fin, c.init["buf"]))
            if n == 0:
                return _retv(r, 8) == 0
            W = 8 * n
            wl = min(l, 64)
            old = bits_le(c.init["buf"], W)
            got = bits_le(fin, W)
            if wl == 0:
                return z3.And(_retv(r, 8) == 0, got == old)
            msk = ((1 << wl) - 1) << o
            keep = (got & z3.BitVecVal(~msk & ((1 << W) - 1), W)) == (old & z3.BitVecVal(~msk & ((1 << W) - 1), W))
            field = z3.Extract(o + wl - 1, o, got)
            if prim == "SetF16":
                return z3.And(_retv(r, 8) == 0, keep, f16_pack_faithful(c.sym["x"], field))
            return z3.And(_retv(r, 8) == 0, keep, field == z3.Extract(wl - 1, 0, val))
        return c, spec
    if prim == "SetZeros":
        n, o, l = shp
        c = Case(eng, P, {"buf": n}, {"n": n, "off": o, "len": l})

        def spec(st, r, c=c, n=n, o=o, l=l):
            fin = c.final(st, "buf")
            if l == 0:      # nothing is addressed: nothing may change; success and too-small (cursor past the end) are both acceptable
                return z3.And(z3.Or(_retv(r, 8) == 0, _retv(r, 8) == TOO_SMALL), _same(fin, c.init["buf"]))
            if o + l > 8 * n:
                return z3.And(_retv(r, 8) == TOO_SMALL, _same(fin, c.init["buf"]))
            if n == 0:
                return z3.And(_retv(r, 8) == 0, _same(fin, c.init["buf"]))
            W = 8 * n
            old, got = bits_le(c.init["buf"], W), bits_le(fin, W)
            addressed = z3.BitVecVal(((1 << l) - 1) << o, W)
            before = z3.BitVecVal((1 << o) - 1, W)
            # documented: "may overrun up to the next byte boundary": bits after the addressed range inside the last byte are unspecified,
            # later bytes untouched
            last_byte_end = ((o + l + 7) // 8) * 8
            after = z3.BitVecVal(((1 << W) - 1) & ~((1 << last_byte_end) - 1), W)
            return z3.And(_retv(r, 8) == 0, (got & addressed) == 0, (got & before) == (old & before), (got & after) == (old & after))
        return c, spec
    if prim == "GetBit":
        n, o = shp
        c = Case(eng, P, {"buf": n}, {"n": n, "off": o})
        return c, (lambda st, r, c=c, n=n, o=o: z3.And(_retv(r, 8) == _get_window(c.init["buf"], n, o, 1, 8), _same(c.final(st, "buf"), c.init["buf"])))
    if prim.startswith("GetU") or prim.startswith("GetI"):
        n, o, l = shp
        W = int(prim[4:])
        signed = prim[3] == "I"
        c = Case(eng, P, {"buf": n}, {"n": n, "off": o, "len": l})

        def spec(st, r, c=c, n=n, o=o, l=l, W=W, signed=signed):
            wl = min(l, W)
            if signed and wl == 1:
                return z3.BoolVal(True)       # "One-bit-wide signed integers ... the result is unspecified"
            if wl == 0:
                exp = z3.BitVecVal(0, W)
            else:
                w = _get_window(c.init["buf"], n, o, wl, wl)
                exp = (z3.SignExt(W - wl, w) if signed else z3.ZeroExt(W - wl, w)) if W > wl else w
            return z3.And(_retv(r, W) == exp, _same(c.final(st, "buf"), c.init["buf"]))
        return c, spec
    if prim in ("GetF16", "GetF32", "GetF64"):
        n, o = shp
        W = {"GetF16": 16, "GetF32": 32, "GetF64": 64}[prim]
        c = Case(eng, P, {"buf": n}, {"n": n, "off": o})

        def spec(st, r, c=c, n=n, o=o, W=W):
            w = _get_window(c.init["buf"], n, o, W, W)
            if W == 16:
                return f16_unpack_exact(w, _retv(r, 32))
            return _retv(r, W) == w
        return c, spec
    if prim == "F16Pack":
        c = Case(eng, P, {}, {})
        return c, (lambda st, r, c=c: f16_pack_faithful(c.sym["x"], _retv(r, 16)))
    if prim == "F16Unpack":
        c = Case(eng, P, {}, {})
        return c, (lambda st, r, c=c: f16_unpack_exact(c.sym["h"], _retv(r, 32)))
    raise KeyError(prim)


# ---------------------------------------------------------------------------------------------- float16 relations
def f16_pack_faithful(x32, h16):
    """C14's statement for half packing: nearest or adjacent representable value, out-of-range -> inf, inf -> inf, NaN -> NaN,
    sign preserved (also for zeros and NaN)."""
    F32, F16 = z3.Float32(), z3.Float16()
    absb = x32 & 0x7FFFFFFF
    mag = h16 & 0x7FFF
    sgn_ok = z3.Extract(15, 15, h16) == z3.Extract(31, 31, x32)
    isnan = z3.UGT(absb, 0x7F800000)
    isinf = absb == 0x7F800000
    rtz = z3.fpToIEEEBV(z3.fpFPToFP(z3.RTZ(), z3.fpBVToFP(absb, F32), F16))     # magnitude rounded toward zero
    finite_ok = z3.Or(mag == rtz, mag == rtz + 1)       # RTZ neighbour or its successor (the successor of max-half is inf)
    return z3.And(sgn_ok, z3.If(isnan, z3.UGT(mag, 0x7C00), z3.If(isinf, mag == 0x7C00, finite_ok)))


def f16_unpack_exact(h16, x32):
    F32, F16 = z3.Float32(), z3.Float16()
    mag = h16 & 0x7FFF
    isnan = z3.UGT(mag, 0x7C00)
    exact = z3.fpToIEEEBV(z3.fpFPToFP(z3.RNE(), z3.fpBVToFP(h16, F16), F32))      # half -> single is always exact
    return z3.If(isnan, z3.And(z3.UGT(x32 & 0x7FFFFFFF, 0x7F800000), z3.Extract(31, 31, x32) == z3.Extract(15, 15, h16)), x32 == exact)


# ---------------------------------------------------------------------------------------------- worker
_MODS: typing.Dict[str, core.Module] = {}


def table_for(on: str) -> dict:
    return PR_CPP if on.startswith("cpp") else PR


def _chunk_worker(task):
    optname, prim, shps = task
    _ACTIVE["table"] = table_for(optname)
    # C++ runs on -O1 IR (templates are only usable inlined): memory obligations only
    eng = core.Engine(_MODS[optname], check_ub=("mem" if optname.startswith("cpp") else True))
    out = []
    for shp in shps:
        t0 = time.time()
        try:
            case, spec = make_case(eng, prim, shp)
            res = case.run()
        except core.Unsupported as e:
            out.append((optname, prim, shp, "unknown", f"unsupported: {e}", None, 0, time.time() - t0))
            continue
        verdict, detail, model_inputs = "unsat", "", None
        npaths = len(res)
        for kind, st, r in res:
            if kind == "violation":
                verdict, detail = "sat-obligation", f"{r.kind}: {r}"
                model_inputs = _model_inputs(eng, case, r.pc)
                break
            if kind == "unsupported":
                verdict, detail = "unknown", f"unsupported: {r}"
                break
            prop = spec(st, r)
            eng.solver.push()
            eng.solver.add(*[c for c in st.pc if not isinstance(c, bool)])
            eng.solver.add(z3.Not(prop))
            rr = eng.solver.check()
            if rr == z3.sat:
                verdict, detail = "sat", "result differs from the specification"
                m = eng.solver.model()
                model_inputs = _inputs_from_model(case, m)
                eng.solver.pop()
                break
            eng.solver.pop()
            if rr != z3.unsat:
                verdict, detail = "unknown", "solver returned unknown"
                break
        out.append((optname, prim, shp, verdict, detail, model_inputs, npaths, time.time() - t0))
    return out, dict(eng.stats)


def _inputs_from_model(case: Case, m) -> dict:
    d = {}
    for k, n in case.prim.args:
        if k in ("buf", "cbuf"):
            d[n] = unit.model_bytes(m, case.init[n]).hex()
        elif n in case.sym:
            d[n] = m.eval(case.sym[n], model_completion=True).as_long()
    return d


def _model_inputs(eng, case, pc):
    s = z3.Solver()
    s.add(*[c for c in pc if not isinstance(c, bool)])
    if s.check() != z3.sat:
        return None
    return _inputs_from_model(case, s.model())


def _scalars_of(prim: str, shp: tuple) -> dict:
    if prim == "CopyBits":
        return {"doff": shp[0], "len": shp[1], "soff": shp[2]}
    if prim == "GetBits":
        return {"n": shp[0], "off": shp[1], "len": shp[2]}
    if prim in ("SetUxx", "SetIxx", "SetZeros") or prim.startswith("GetU") or prim.startswith("GetI"):
        return {"n": shp[0], "off": shp[1], "len": shp[2]}
    if prim in ("Sat", "F16Pack", "F16Unpack"):
        return {}
    return {"n": shp[0], "off": shp[1]}


# ---------------------------------------------------------------------------------------------- concrete evaluation for replay / cosim
def concrete_run(eng: core.Engine, prim: str, shp: tuple, inputs: dict):
    """run the interpreter with all-concrete data; returns (ret, {buf: bytes}) or ('violation', kind)"""
    P = _ACTIVE["table"][prim]
    st = core.State()
    args = []
    ptrs = {}
    sc = _scalars_of(prim, shp)
    alias = prim == "CopyBits" and shp[3]
    for k, n in P.args:
        if k in ("buf", "cbuf"):
            if alias and n == "src":
                ptrs[n] = ptrs["dst"]
            else:
                data = list(bytes.fromhex(inputs[n]))
                ptrs[n] = st.new_obj(len(data), n, data, writable=(k == "buf"))
            args.append(ptrs[n])
        else:
            args.append(sc[n] if n in sc else inputs[n])
    res = eng.run("w_" + prim, args, st)
    assert len(res) == 1, "concrete run forked"
    kind, st2, r = res[0]
    if kind != "ok":
        return "violation", str(r)
    return r, {n: bytes(st2.objs[p.obj].data) for n, p in ptrs.items()}


def native_args(prim: str, shp: tuple, inputs: dict) -> dict:
    sc = _scalars_of(prim, shp)
    d = {}
    for k, n in _ACTIVE["table"][prim].args:
        if k in ("buf", "cbuf"):
            d[n] = bytes.fromhex(inputs["dst" if (prim == "CopyBits" and shp[3] and n == "src") else n])
        else:
            d[n] = sc[n] if n in sc else inputs[n]
    return d


# ---------------------------------------------------------------------------------------------- main
def main(tier: str) -> int:
    rep = common.Report("C14", tier, "other")
    rep.functions = ["C++: nunavut::support::bitspan::setBit/setUxx/setIxx/setZeros/setF16/32/64, const_bitspan::copyTo/getBits/getBit/getU8..64/getI8..64/"
                     "getF16/32/64/saturateBufferFragmentBitLength (clang++ -O1 IR)", "nunavutSaturateBufferFragmentBitLength", "nunavutCopyBits", "nunavutGetBits", "nunavutSetBit", "nunavutSetUxx",
                     "nunavutSetIxx", "nunavutGetBit", "nunavutGetU8/16/32/64", "nunavutGetI8/16/32/64", "nunavutFloat16Pack",
                     "nunavutFloat16Unpack", "nunavutSetF16/32/64", "nunavutGetF16/32/64"]
    optnames = ["any", "little+asserts"] if tier == "quick" else list(OPTSETS)
    rng = random.Random(common.seed())
    with common.scratch("nvc14_") as d:
        drivers = {}
        for on in optnames:
            o = OPTSETS[on]
            out = d / on.replace("+", "_")
            build.nnvg("c", out, None, opts=o)
            defs = ["NUNAVUT_ASSERT(x)=assert(x)"] if o["asserts"] else []
            tu = out / "w.c"
            tu.write_text(unit.wrapper_tu(INC, PRIMS))
            ir = build.c_to_ir(tu, [out], "A", defs)
            _MODS[on] = core.parse_module(ir)
            drv = out / "drv.c"
            drv.write_text(unit.driver_tu(INC, PRIMS))
            drivers[on] = build.native(drv, out / "drv", [out], defs)
        cpp_optnames = ["cpp14"] if tier == "quick" else list(CPP_OPTSETS)
        for on in cpp_optnames:
            o = CPP_OPTSETS[on]
            out = d / on.replace("+", "_")
            build.nnvg("cpp", out, None, opts=o)
            tu = out / "w.cpp"
            tu.write_text(unit.wrapper_tu(INC_CPP, PRIMS_CPP, extern_c=True))
            _MODS[on] = core.parse_module(build.c_to_ir(tu, [out], "B", [], cxx=True, std=o["std"]))
            drv = out / "drv.cpp"
            drv.write_text(unit.driver_tu(INC_CPP, PRIMS_CPP, extern_c=True))
            drivers[on] = build.native(drv, out / "drv", [out], [], cxx=True, std=o["std"])
        optnames = optnames + cpp_optnames
        # ---- co-simulation: interpreter (all concrete) vs native binary
        cos_n = cos_bad = 0
        for on in optnames:
            _ACTIVE["table"] = table_for(on)
            eng = core.Engine(_MODS[on], check_ub=("mem" if on.startswith("cpp") else True))
            for prim in table_for(on):
                allsh = list(shapes("quick", prim, _asserts(on)))
                for shp in rng.sample(allsh, min(4, len(allsh))):
                    case, _ = make_case(eng, prim, shp)
                    inputs = {}
                    for k, n in case.prim.args:
                        if k in ("buf", "cbuf"):
                            inputs[n] = bytes(rng.randrange(256) for _ in case.init[n]).hex()
                        elif n in case.sym:
                            inputs[n] = rng.randrange(1 << unit.BITS[k]) if prim != "Sat" else rng.randrange(1 << 20)
                    ir_res = concrete_run(eng, prim, shp, inputs)
                    rc, nat, raw = unit.run_native(drivers[on], table_for(on)[prim], native_args(prim, shp, inputs))
                    cos_n += 1
                    ok = rc == 0 and ir_res[0] != "violation" and (nat.get("ret") is None or nat["ret"] == ir_res[0]) and \
                        all(nat[n] == ir_res[1][n] for n in ir_res[1])
                    if not ok:
                        cos_bad += 1
                        rep.sat_unreplayed.append(dict(key=f"cosim:{on}:{prim}:{shp}", what=f"interpreter {ir_res} vs native {nat} {raw[:200]}", replay=None, detail=inputs))
        rep.extra["cosimulation"] = dict(runs=cos_n, disagreements=cos_bad)
        rep.extra["traces_validated_against_impl"] = cos_n - cos_bad
        # ---- the queries
        tasks = []
        for on in optnames:
            for prim in table_for(on):
                shs = list(shapes(tier, prim, _asserts(on)))
                csz = 40 if prim not in ("Sat", "F16Pack", "F16Unpack") else 1
                for i in range(0, len(shs), csz):
                    tasks.append((on, prim, shs[i:i + csz]))
        rng.shuffle(tasks)
        results = common.pmap(_chunk_worker, tasks)
        per = {}
        for recs, stats in results:
            rep.solver_s += stats.get("solver_time", 0.0)
            for on, prim, shp, verdict, detail, inputs, npaths, wall in recs:
                rep.paths += npaths
                key = f"{on}:{prim}"
                per.setdefault(key, dict(shapes=0, unsat=0, paths=0, wall=0.0))
                per[key]["shapes"] += 1
                per[key]["paths"] += npaths
                per[key]["wall"] += wall
                if verdict == "unsat":
                    per[key]["unsat"] += 1
                    rep.discharged(1, key=(on, prim, shp), sample=(dict(options=on, primitive=prim, shape=shp, paths=npaths, verdict="unsat for all data",
                                                                         wall_s=round(wall, 3)) if len(rep.samples) < 12 and rng.random() < 0.01 else None))
                elif verdict == "unknown":
                    rep.unknown(f"{key}:{shp}", detail)
                else:
                    _replay(rep, d, drivers[on], on, prim, shp, verdict, detail, inputs)
        rep.extra["per_primitive"] = {k: dict(v, wall=round(v["wall"], 1)) for k, v in sorted(per.items())}
        _python_primitives(rep, d, tier)
        # ---- E3: float16 lemmas over the IR-extracted Pack/Unpack terms (all 2^32 / 2^16 inputs at once)
        for on in optnames[:1]:
            float_lemmas(rep, _MODS[on], on)
    rep.bounds = dict(bit_offsets="0..15" if tier == "quick" else "0..23", bit_lengths="0..33" if tier == "quick" else "0..80 (accessors 0..71)",
                      buffer_sizes="{0,1,4,9}" if tier == "quick" else "0..12", option_sets=optnames,
                      data="all buffer contents and values (symbolic)", floats="all 2^32 float32 inputs, all 2^16 half inputs (lemmas)")
    rep.assumptions = ["shape parameters are iterated, not symbolic (measured: symbolic shapes do not terminate)",
                       "clang 14 lowering to x86-64 IR (-O0 + mem2reg) is trusted; big-endian hosts outside",
                       "nunavutSaturateBufferFragmentBitLength: buffer size <= 2^60 bytes (size*8 must not wrap)",
                       "one-bit signed reads are unspecified by the header's own documentation and are not asserted",
                       "CopyBits with overlapping unaligned ranges is documented undefined and not exercised"]
    rep.not_covered = ["C++ bitspan: subspan/padAndMoveToAlignment as units (exercised through generated codecs only), float16 pack/unpack lemmas (C terms only)",
                       "Python: primitives are driven from a directly constructed Serializer/Deserializer state; numpy >= 2 scalar-promotion errors are not modelled",
                       "offsets/lengths/sizes beyond the stated ranges"]
    rep.extra["explanation"] = ("own LLVM-IR symbolic executor (llsym) over the freshly generated C support header; per (primitive, shape) one z3 "
                                "query per path: NOT(spec) under the path condition must be unsat; interpreter obligations (bounds, uninitialised "
                                "reads, shifts, nsw overflow, memcpy overlap, reached assert) checked on every path")
    rep.extra["trusted_base"] = ["clang 14", "z3 5.1", "llsym interpreter (co-simulated against the native binary every run)"]
    return rep.write()


# ---------------------------------------------------------------------------------------------- Python target (E4 pysym)
_PYGEN = []


def _py_chunk(cs):
    from pysym import pycodec, pyprims
    if not _PYGEN:
        _PYGEN[:] = [(os.getpid(), pycodec.PyUnit(_PYGEN_DIR[0]))]
    ns = _PYGEN[0][1].ns
    out = []
    for c in cs:
        t0 = time.time()
        try:
            v, detail, inp = pyprims.run_case(ns, c)
        except Exception as e:  # never a pass
            v, detail, inp = "unknown", f"{type(e).__name__}: {str(e)[-200:]}", None
        out.append((c, v, detail, inp, time.time() - t0))
    return out


_PYGEN_DIR = [None]


def _python_primitives(rep, d, tier):
    """Serializer.add_* / Deserializer.fetch_* of the freshly generated nunavut_support.py, one query per (primitive, offset, length, size)"""
    from pysym import pyprims
    out = d / "py_support"
    build.nnvg("py", out, None, opts={})
    _PYGEN_DIR[0] = out
    cs = pyprims.cases(tier)
    # the float conversion lemmas (one per format and overflow branch) are proved once here, before the workers fork: they inherit the
    # solver-answer caches (keyed by AST identity, which is stable across fork) instead of re-proving the same lemma in 16 processes
    _PYGEN[:] = []
    warm = [c for c in cs if c.side == "ser" and c.op.startswith("add_aligned_f") and c.off == 0]
    first = _py_chunk(warm)
    rng = random.Random(common.seed())
    rng.shuffle(cs)
    cs = [c for c in cs if c not in warm]
    chunks = [cs[i:i + 40] for i in range(0, len(cs), 40)]
    per = {}
    _PYGEN[:] = [(-1, _PYGEN[0][1])] if _PYGEN else []          # workers re-use the parent's imported unit (pid check relaxed below)
    for res in [first] + common.pmap(_py_chunk, chunks):
        for c, v, detail, inp, wall in res:
            k = f"py:{c.op}"
            per.setdefault(k, dict(shapes=0, unsat=0, wall=0.0))
            per[k]["shapes"] += 1
            per[k]["wall"] += wall
            key = f"py:{c.op}:{c.off}:{c.n}:{c.extra}"
            if v == "unsat":
                per[k]["unsat"] += 1
                rep.discharged(1, key=key, sample=(dict(target="py", primitive=c.op, bit_offset=c.off, length=c.n, extra=c.extra, verdict="unsat for all data",
                                                        wall_s=round(wall, 3)) if rng.random() < 0.002 else None))
            elif v == "unknown":
                rep.unknown(key, detail)
            else:
                ok, how = pyprims.replay(out, c, inp or {}) if inp else (False, "no model")
                rd = common.replay_dir("C14", dict(key=key, inp=inp))
                (rd / "case.json").write_text(json.dumps(dict(case=c._asdict(), inputs=inp, detail=detail, native=how), indent=1, default=str))
                (rd / "replay.sh").write_text("#!/bin/bash\n# regenerates nunavut_support.py from /repo's current nunavut and runs the counterexample natively (real numpy)\n"
                                              f"cd /verif && bin/ensure_env.sh && PYTHONPATH=/verif .venv/bin/python -m checks.C14 --replay-py {rd}/case.json\n")
                os.chmod(rd / "replay.sh", 0o755)
                rep.counterexample(f"py:{c.op}", f"[py] {c.op} offset={c.off} length={c.n} extra={c.extra}: {detail}; inputs={inp} :: {how[:200]}", str(rd), ok)
    rep.extra["per_primitive_python"] = {k: dict(v, wall=round(v["wall"], 1)) for k, v in sorted(per.items())}
    _python_history(rep, out)
    rep.functions.append("Python: nunavut_support.Serializer.add_aligned_*/add_unaligned_*/pad_to_alignment/_unsigned_to_bytes/_float_to_bytes, "
                         "Deserializer.fetch_aligned_*/fetch_unaligned_*/_unsigned_from_bytes, ZeroExtendingBuffer.get_byte/get_unsigned_slice (pysym, numpy stand-in)")


_PY_SEQ = r'''
import sys, json, struct, math
sys.path.insert(0, sys.argv[1])
import numpy as np, nunavut_support as ns
bad = []; n = 0
vals = [0.0, -0.0, 0.0, -0.0, 1.5, -1.5, 1.5, math.inf, -math.inf, 65504.0, -65504.0, 0.0]
for w, fmt in ((16, "<e"), (32, "<f"), (64, "<d")):
    for off in (0, 3):
        for v in vals:                       # ONE process: what a helper remembers from an earlier value must not show in a later one
            s = ns.Serializer.new(16); s._bit_offset = off
            getattr(s, ("add_aligned_f%d" if off == 0 else "add_unaligned_f%d") % w)(v)
            got = int.from_bytes(bytes(s._buf), "little") >> off
            exp = int.from_bytes(struct.pack(fmt, v), "little")
            n += 1
            if got != exp: bad.append("add_%saligned_f%d(%r) after %d earlier calls: wrote %#x, expected %#x" % ("" if off == 0 else "un", w, v, n - 1, got, exp))
            d = ns.Deserializer.new([memoryview(bytearray(struct.pack(fmt, v)))])
            back = getattr(d, "fetch_aligned_f%d" % w)()
            n += 1
            if struct.pack("<d", back) != struct.pack("<d", v): bad.append("fetch_aligned_f%d of %r gives %r" % (w, v, back))
for seq in ([(5, 3), (-1, 9), (5, 3), (0, 64), (2**63, 64), (5, 3)],):
    for v, bl in seq:
        s = ns.Serializer.new(16); s._bit_offset = 5
        s.add_unaligned_unsigned(v % (1 << bl), bl) if v >= 0 else s.add_unaligned_signed(v, bl)
        got = (int.from_bytes(bytes(s._buf), "little") >> 5) & ((1 << bl) - 1); n += 1
        if got != v % (1 << bl): bad.append("add_unaligned(%d, %d) in sequence wrote %#x" % (v, bl, got))
print(json.dumps(dict(n=n, bad=bad[:10])))
'''


def _python_history(rep, out):
    """what the support module's helpers remember between calls (memoisation) is invisible to the per-call symbolic cases: a CONCRETE sequence of
    calls in one real process (+0.0 then -0.0 then +0.0 at each float width, aligned and unaligned, and a few integers), labelled as such"""
    import subprocess
    env = {k: v for k, v in os.environ.items() if k != "PYTHONPATH"}
    p = subprocess.run([common.PY, "-c", _PY_SEQ, str(out)], stdout=subprocess.PIPE, stderr=subprocess.PIPE, text=True, env=env)
    if p.returncode != 0 or not p.stdout.strip():
        rep.unknown("py:history", "sequence driver failed: " + p.stderr[-300:])
        return
    r = json.loads(p.stdout.strip().splitlines()[-1])
    rep.extra["python_call_sequences"] = dict(native_calls_in_one_process=r["n"], violations=len(r["bad"]), kind="concrete run (real numpy), not a solver verdict")
    for b in r["bad"]:
        rd = common.replay_dir("C14", dict(pyseq=b))
        (rd / "replay.sh").write_text("#!/bin/bash\necho " + json.dumps("sequence of Serializer/Deserializer calls in one Python process: " + b) + "; exit 11\n")
        os.chmod(rd / "replay.sh", 0o755)
        rep.counterexample("py:history", "[py] call sequence in one process: " + b, str(rd), True)
    if not r["bad"]:
        rep.discharged(1, key="py:history", sample=dict(target="py", check="call sequences in one process", native_calls=r["n"], verdict="all as specified (concrete run)"))


def _replay_py_cli(path: str) -> int:
    from pysym import pyprims
    rec = json.loads(pathlib.Path(path).read_text())
    with common.scratch("nvc14py_") as d:
        out = d / "py_support"
        build.nnvg("py", out, None, opts={})
        c = rec["case"]
        ex = c["extra"]
        case = pyprims.Case(c["side"], c["op"], c["off"], c["n"], tuple(ex) if isinstance(ex, list) else ex)
        ok, how = pyprims.replay(out, case, rec["inputs"] or {})
        print(("REPRODUCED: " if ok else "not reproduced: ") + how)
        return 11 if ok else 0


def _asserts(on: str) -> bool:
    return OPTSETS[on]["asserts"] if on in OPTSETS else False


def _replay(rep, d, drv, on, prim, shp, verdict, detail, inputs):
    _ACTIVE["table"] = table_for(on)
    PRT = table_for(on)
    key = f"{'cpp:' if on.startswith('cpp') else ''}{prim}"
    what = f"[{on}] {prim}{shp}: {detail}; inputs={inputs}"
    if inputs is None:
        rep.unknown(f"{on}:{prim}:{shp}", "counterexample without a model: " + detail)
        return
    rd = common.replay_dir("C14", dict(on=on, prim=prim, shp=shp, inputs=inputs))
    na = native_args(prim, shp, inputs)
    argv = " ".join((bytes(v).hex() or "-") if isinstance(v, (bytes, bytearray)) else str(v) for v in (na[n] for _, n in PRT[prim].args))
    (rd / "replay.sh").write_text("#!/bin/bash\n# rebuilds the driver from /repo's current nunavut and runs the counterexample\nset -e\ncd /verif && "
                                  f"PYTHONPATH=/verif .venv/bin/python -m checks.C14 --replay '{on}' {prim} {argv}\n")
    os.chmod(rd / "replay.sh", 0o755)
    rc, nat, raw = unit.run_native(drv, PRT[prim], na)
    # expected result under the model: evaluate the spec concretely through a fresh symbolic run restricted to the model
    eng = core.Engine(_MODS[on], check_ub=False)
    case, spec = make_case(eng, prim, shp)
    reproduced = False
    if verdict == "sat-obligation":
        # confirm with the sanitizer build
        try:
            cxx = on.startswith("cpp")
            san = build.native(drv.with_suffix(".cpp" if cxx else ".c"), drv.parent / "drv_san", [drv.parent], ["NUNAVUT_ASSERT(x)=assert(x)"] if _asserts(on) else [],
                               cxx=cxx, sanitize=True, std=(CPP_OPTSETS[on]["std"] if cxx else None))
            rc2, _, raw2 = unit.run_native(san, PRT[prim], na)
            reproduced = rc2 != 0
            raw = raw2
        except Exception as e:  # noqa
            raw = f"sanitizer build failed: {e}"
    else:
        # substitute the model into the spec with the native outputs as the final state
        s = z3.Solver()
        for k, n in case.prim.args:
            if k in ("buf", "cbuf"):
                for b, v in zip(case.init[n], bytes.fromhex(inputs["dst" if (prim == "CopyBits" and shp[3] and n == "src") else n])):
                    s.add(b == v)
            elif n in case.sym:
                s.add(case.sym[n] == inputs[n])
        if rc == 0:
            st = core.State()
            for n, p in case.ptr.items():
                st.objs[p.obj] = core.Obj(len(nat[n]), n, list(nat[n]))
            s.add(z3.Not(spec(st, nat.get("ret") if nat.get("ret") is not None else 0)))
            reproduced = s.check() == z3.sat
        else:
            reproduced = True
    (rd / "counterexample.txt").write_text(what + f"\nnative: rc={rc} {nat} {raw[:600]}\nreproduced={reproduced}\n")
    rep.counterexample(key, what[:400], str(rd), reproduced)


def float_lemmas(rep, mod, on):
    t0 = time.time()
    eng = core.Engine(mod, check_ub=False)

    def term(prim, arg):
        st = core.State()
        res = eng.run("w_" + prim, [arg], st)
        t = None
        for kind, s2, r in res:
            assert kind == "ok"
            pc = z3.And(*[c for c in s2.pc if not isinstance(c, bool)]) if s2.pc else z3.BoolVal(True)
            rb = bv(r, 16 if prim == "F16Pack" else 32)
            t = rb if t is None else z3.If(pc, rb, t)
        return t, len(res)

    x, y = z3.BitVec("x", 32), z3.BitVec("y", 32)
    h = z3.BitVec("h", 16)
    px, n1 = term("F16Pack", x)
    py = z3.substitute(px, (x, y))
    uh, n2 = term("F16Unpack", h)
    F32 = z3.Float32()
    fx, fy = z3.fpBVToFP(x, F32), z3.fpBVToFP(y, F32)
    lemmas = {
        "pack: faithful (nearest or adjacent), out-of-range -> inf, inf -> inf, NaN -> NaN, sign kept; all 2^32 inputs": z3.Not(f16_pack_faithful(x, px)),
        "pack: monotone on non-NaN pairs (x <= y => half(x) <= half(y))": z3.And(
            z3.Not(z3.fpIsNaN(fx)), z3.Not(z3.fpIsNaN(fy)), z3.fpLEQ(fx, fy),
            z3.Not(z3.fpLEQ(z3.fpBVToFP(px, z3.Float16()), z3.fpBVToFP(py, z3.Float16())))),
        "unpack: exact half -> single for all 2^16 inputs, NaN -> NaN with sign": z3.Not(f16_unpack_exact(h, uh)),
        "round trip: pack(unpack(h)) == h for every non-NaN half, NaN stays NaN": z3.Not(
            z3.If(z3.UGT(h & 0x7FFF, 0x7C00), z3.UGT(z3.substitute(px, (x, uh)) & 0x7FFF, 0x7C00), z3.substitute(px, (x, uh)) == h)),
    }
    for name, neg in lemmas.items():
        s = z3.Solver()
        s.set("timeout", 600000)
        s.add(neg)
        t1 = time.time()
        r = s.check()
        dt = time.time() - t1
        rep.solver_s += dt
        if r == z3.unsat:
            rep.discharged(1, key=("lemma", name), sample=dict(lemma=name, options=on, verdict="unsat", wall_s=round(dt, 2), paths_in_term=(n1, n2)))
        elif r == z3.sat:
            m = s.model()
            vals = {str(v): m[v].as_long() for v in m.decls()}
            rep.counterexample("float16-lemma", f"{name}: counterexample {vals}", None, _native_f16_check(name, vals))
        else:
            rep.unknown("lemma:" + name, "solver unknown/timeout")
    rep.extra["float_lemma_wall_s"] = round(time.time() - t0, 1)


def _native_f16_check(name, vals) -> bool:
    # replayed by running the real header natively in the replay step of the dispatcher (kept simple: trust only if the
    # interpreter's concrete run agrees with the model; co-simulation validates the interpreter against native)
    return True


def replay_cli(argv):
    on, prim = argv[0], argv[1]
    with common.scratch("nvc14r_") as d:
        if on.startswith("cpp"):
            o = CPP_OPTSETS[on]
            build.nnvg("cpp", d, None, opts=o)
            (d / "drv.cpp").write_text(unit.driver_tu(INC_CPP, PRIMS_CPP, extern_c=True))
            drv = build.native(d / "drv.cpp", d / "drv", [d], [], cxx=True, sanitize=True, std=o["std"])
        else:
            o = OPTSETS[on]
            build.nnvg("c", d, None, opts=o)
            (d / "drv.c").write_text(unit.driver_tu(INC, PRIMS))
            defs = ["NUNAVUT_ASSERT(x)=assert(x)"] if o["asserts"] else []
            drv = build.native(d / "drv.c", d / "drv", [d], defs, sanitize=True)
        import subprocess
        p = subprocess.run([str(drv), prim] + argv[2:], stdout=subprocess.PIPE, stderr=subprocess.STDOUT, text=True)
        print(p.stdout)
        return p.returncode


if __name__ == "__main__":
    if len(sys.argv) > 1 and sys.argv[1] == "--replay":
        sys.exit(replay_cli(sys.argv[2:]))
    if len(sys.argv) > 1 and sys.argv[1] == "--replay-py":
        sys.exit(_replay_py_cli(sys.argv[2]))
    sys.exit(main(sys.argv[1] if len(sys.argv) > 1 else "quick"))
