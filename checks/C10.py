"""C10 -- per-type output ignores sibling types, processing order and earlier runs (E2; inductive step from an arbitrary process state)."""
import sys
from lib import common
from xh.runner import Cond, run_conditions


def main(tier: str) -> int:
    rep = common.Report("C10", tier, "other")
    rep.functions = ["nunavut.jinja.CodeGenerator._generate_code", "CodeGenerator._generate_with_line_buffer", "nunavut._postprocessors.LimitEmptyLines (start_file, __call__)",
                     "nunavut._postprocessors.TrimTrailingWhitespace", "nunavut.lang._common.UniqueNameGenerator (reset, get_instance, __call__)",
                     "nunavut.jinja.DSDLCodeGenerator._generate_type over the real C templates of /verif/data/ns1",
                     "nunavut.lang.cpp.filter_block_comment / _make_block_comment / _make_textwrap (every built-in comment style, 2 indents, 3 texts; natively too: "
                     "CrossHair runs lru_cache uncached)"]
    M = "h_C10"
    T = 600 if tier == "quick" else 3000
    conds = [Cond(M, f, T, 120, dict(C10_K="2")) for f in ("limiter_arbitrary_prestate", "unique_names_do_not_leak")]
    conds += [Cond(M, "limiter_state_does_not_leak", T, 120, dict(C10_K="2", C10_N=n)) for n in ("0", "1")]
    conds.append(Cond(M, "earlier_run_with_other_options_does_not_matter", max(T, 900), 600))
    conds.append(Cond(M, "earlier_run_over_another_tree_does_not_matter", max(T, 900), 600))
    conds.append(Cond(M, "block_comment_keeps_no_memory", T, 120))
    masks = (1, 2, 4, 7) if tier == "quick" else range(1, 8)
    for m in masks:
        conds.append(Cond(M, "subset_and_order_do_not_matter", max(T, 900), 600, dict(C10_MASK=str(m))))
    rep.bounds = dict(generator_reuse="one generator, two runs, both valuations of omit_serialization_support each (type vt.A)", previous_file="any text of <= 2 characters over {a, LF}", file_under_test="2 chunks x <= 2 characters", limiter_counter="0..3", N="0..1",
                      name_generator_prestate="absent / same token / other token with any index 0..1000",
                      subsets=("{A}, {B}, {C}, {A,B,C}" if tier == "quick" else "all 7 non-empty subsets") + " of the 3 types of /verif/data/ns1, every rotation and reversal")
    rep.assumptions = ["process state an earlier file/run can leave behind = the line post-processors' instance state and the UniqueNameGenerator singleton "
                       "(the two stateful objects on the generation path); lru_cache transparency is not checked",
                       "dependency and namespace code are pure functions of their arguments (not something a solver can establish for arbitrary Python)"]
    rep.not_covered = ["user templates with their own state", "languages other than C for the subset/order clause", "namespaces beyond /verif/data/ns1"]
    rep.extra["explanation"] = ("allocator idiom: symbolic pre-state (previous file text / counter value / name-generator map), one file generated through the real "
                                "code, output compared with generation from a fresh state; subset/order: symbolic rotation and reversal of the generation order")
    rep.extra["trusted_base"] = ["crosshair-tool 0.0.110", "z3", "CPython 3.12", "FakeFS"]
    run_conditions(rep, conds)
    return rep.write()


if __name__ == "__main__":
    sys.exit(main(sys.argv[1] if len(sys.argv) > 1 else "quick"))
