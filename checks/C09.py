"""C09 -- identifier stropping yields valid, unreserved, deterministic identifiers (E2, CrossHair over the real filter_id/strop)."""
import sys
from lib import common
from xh.runner import Cond, run_conditions

SIGMA = "aA1_ \t-éifdo"


def main(tier: str) -> int:
    rep = common.Report("C09", tier, "other")
    rep.functions = ["nunavut.lang._language.Language.filter_id", "nunavut.lang._common.TokenEncoder.strop / _encode / _strop_by_keyword / _strop_by_pattern / "
                     "_encoding_filter / encode_character", "language failure handlers (c, cpp, py)"]
    M = "h_C09"
    conds = []
    if tier == "quick":
        for lang in ("c", "cpp", "py"):
            for ty in ("any", "path", "macro"):
                for ch in SIGMA:       # split by first character over processes (same bound, shorter wall time)
                    conds.append(Cond(M, "strop_ok", 600, 120, dict(C09_LANG=lang, C09_TYPE=ty, C09_LEN="2", C09_FIRST=ch)))
        for lang in ("c", "py"):
            for of in ("0", "1"):
                conds.append(Cond(M, "result_independent_of_earlier_language_objects", 900, 300, dict(C09_LANG=lang, C09_TYPE="any", C09_OTHER_FIRST=of)))
        for lang, nch in (("c", 2), ("cpp", 4), ("py", 10)):
            for k in range(nch):
                conds.append(Cond(M, "reserved_word_never_comes_back", 900, 120, dict(C09_LANG=lang, C09_TYPE="any", C09_CHUNK=str(k), C09_NCHUNKS=str(nch))))
        rep.bounds = dict(token_length="1..2", alphabet="12 class representatives: a A 1 _ space tab - e-acute i f d o", id_types="any, path, macro", languages="c, cpp, py",
                          reserved_words="every ISO C11 / C++17 keyword resp. every Python keyword and builtin name, alone and followed by an underscore (id type any)",
                          process_history="a second language object with another reserved-word list created and used before / after (tokens over {a,_}, length <= 2)")
    else:
        for lang in ("c", "cpp", "py"):
            for ty in ("any", "path", "macro", "typedef", "function", "enum"):
                conds.append(Cond(M, "strop_ok", 2400, 120, dict(C09_LANG=lang, C09_TYPE=ty, C09_LEN="2")))
            conds.append(Cond(M, "result_independent_of_earlier_language_objects", 2400, 300, dict(C09_LANG=lang, C09_TYPE="any")))
            for ty in ("any", "typedef", "macro"):
                for k in range(8):
                    conds.append(Cond(M, "reserved_word_never_comes_back", 2400, 120, dict(C09_LANG=lang, C09_TYPE=ty, C09_CHUNK=str(k), C09_NCHUNKS="8")))
            for ch in SIGMA:
                conds.append(Cond(M, "strop_ok", 3000, 120, dict(C09_LANG=lang, C09_TYPE="any", C09_LEN="3", C09_FIRST=ch)))
        rep.bounds = dict(token_length="1..2 for six id types; 1..3 for type 'any' (split by first character)", alphabet="12 class representatives",
                          id_types="any, path, macro, typedef, function, enum", languages="c, cpp, py")
    rep.assumptions = ["class-representative alphabet; the argument that representatives suffice is informal and NOT part of the claim",
                       "'valid, unreserved' is read off the language configuration: identifier grammar, reserved_identifiers (py: keywords and builtins), "
                       "reserved_token_patterns_by_type, and no character sequence named by token_encoding_rules_by_identifier_type",
                       "lru_cache on strop is bypassed (its transparency is not checked)"]
    rep.not_covered = ["full Unicode and longer tokens (not exhaustible: one-character token over all of Unicode not confirmed in 400 s)",
                       "stropping configuration overrides", "process independence beyond 'no ambient state is read'"]
    rep.extra["explanation"] = ("CrossHair/z3 symbolic execution of the real stropping pipeline over a symbolic token; at these bounds the solver's role is an "
                                "exhaustive, path-guided case split (honest note in DESIGN.md)")
    rep.extra["trusted_base"] = ["crosshair-tool 0.0.110", "z3", "CPython 3.12 re module semantics as modelled by CrossHair (results realised before native predicates)"]
    run_conditions(rep, conds)
    return rep.write()


if __name__ == "__main__":
    sys.exit(main(sys.argv[1] if len(sys.argv) > 1 else "quick"))
