"""C01 -- generated serializers emit exactly the DSDL-specified wire representation (E1 llsym, C target)."""
from __future__ import annotations

import sys
import time

from lib import common
from llsym import codec, core
from checks import codec_common as cc
from checks import py_common


def _work(a):
    if a[0] == "py":
        return py_common.work((a[1], a[2], _TIER[0]))
    ti, on = a
    t = _TYPES[ti]
    out = []
    try:
        tu = cc.unit_for(t, on, "B")
    except cc.NotCovered as e:
        lg = codec.QueryLog(); lg.notes.append(f"NOT COVERED [{on}]: {e}")
        return [(ti, on, "not covered", lg, None, 0.0)]
    except Exception as e:  # build problem: inconclusive, never a pass
        lg = codec.QueryLog(); lg.unknown.append(f"build failed: {str(e)[-300:]}")
        return [(ti, on, "build", lg, None, 0.0)]
    mx = codec.max_bytes(t)
    for bs in (mx, mx + 1):
        t0 = time.time()
        try:
            lg = codec.ser_queries(tu, bs, check_ub=False)
        except Exception as e:
            lg = codec.QueryLog(); lg.unknown.append(f"{type(e).__name__}: {str(e)[-300:]}")
        out.append((ti, on, f"serialize buf={bs}", lg, tu, time.time() - t0))
    return out


_TYPES = []
_TIER = ["quick"]


def main(tier: str) -> int:
    rep = common.Report("C01", tier, "other")
    _TIER[0] = tier
    optnames = ["default", "little+asserts", "cpp14"] if tier == "quick" else list(cc.OPTSETS)
    with common.scratch("nvc01_") as d:
        types, feats = cc.prepare(tier, d, optnames)
        _TYPES[:] = types
        tasks = [(i, on) for on in optnames for i in range(len(types))]
        py_common.generate(d, d / "dsdl" / "vt")
        py_common.TYPES[:] = types
        tasks += [("py", "ser", i) for i in range(len(types))]
        for res in common.pmap(_work, tasks):
            for ti, on, what, lg, tu, wall in res:
                cc.record(rep, types[ti], on, what, lg, tu, wall, replayer=py_common.replayer(types[ti]) if on == "py" else None)
        optnames = optnames + ["py"]
        py_common.cosim(rep, types)
        rep.functions = ["<T>_serialize_ of every corpus type with everything it calls (nunavutSetUxx, nunavutSetIxx, nunavutSetF16/32/64, "
                         "nunavutSetBit, nunavutCopyBits, nunavutFloat16Pack, nested <T>_serialize_)"]
        rep.bounds = dict(types=len(types), corpus="one small type per template feature (llsym/corpus.py)" + ("" if tier == "quick" else " + 24 seeded random types"),
                          option_sets=optnames, buffer_sizes="max serialized size and max+1", data="every byte of the object (incl. padding, counts, tags) "
                          "and every prior buffer byte symbolic")
    rep.assumptions = ["bool storage bytes are 0 or 1 (anything else is undefined behaviour to load in C)",
                       "types outside the corpus, big-endian hosts, buffer sizes other than the two stated are outside this check (C05 covers smaller buffers)",
                       "clang 14 -O1 IR of x86-64 is the code that is executed symbolically; pydsdl 1.x describes the types",
                       "float16: the relation asserted is C14's (faithful rounding, saturation to +-65504 for saturated fields), not RNE"]
    rep.not_covered = ["C++: types with bit arrays (std::bitset / std::vector<bool>); C++17 std::variant and pmr/cetl flavours only in the thorough tier",
                       "Python: scalar values outside the DSDL range (the generated setters reject them) and NaN payloads; numpy >= 2 scalar-promotion errors "
                       "(the repository declares numpy ~= 1.24 for generated code)", "types not in the corpus"]
    rep.functions.append("Python target: <T>._serialize_ of every corpus type and the generated nunavut_support.Serializer (add_aligned_*/add_unaligned_*, "
                         "fork_bytes, pad_to_alignment, _unsigned_to_bytes, _float_to_bytes) executed by pysym under a numpy stand-in")
    rep.assumptions += py_common.ASSUMPTIONS
    rep.extra["explanation"] = ("llsym symbolic execution of each generated serializer; per path and per value shape compatible with the path one z3 "
                                "query: NOT(rc/size/bytes match the reference model of DSDL serialization) must be unsat; invalid values must be rejected")
    rep.extra["trusted_base"] = ["clang 14", "z3 5.1", "llsym interpreter", "llsym/dsdlspec.py reference model", "pydsdl"]
    return rep.write()


if __name__ == "__main__":
    sys.exit(main(sys.argv[1] if len(sys.argv) > 1 else "quick"))
