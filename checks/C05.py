"""C05 -- exported size bounds and type metadata (E1 llsym for the size bounds; ground evaluation of exported constants; E3 lemma)."""
from __future__ import annotations

import ast
import fractions
import inspect
import subprocess
import sys
import textwrap
import time
import typing

import pydsdl
import z3

from lib import common
from llsym import build, codec, dsdlspec as D
from checks import codec_common as cc

_TYPES = []
_TIER = ["quick"]


# ---------------------------------------------------------------------------------------------- symbolic part
def _work(a):
    ti, on = a
    t = _TYPES[ti]
    out = []
    try:
        tu = cc.unit_for(t, on, "B")     # -O1 IR: far fewer paths; memory obligations (bounds, uninitialised reads) stay on
    except Exception as e:
        lg = codec.QueryLog(); lg.unknown.append(f"build failed: {str(e)[-300:]}")
        return [(ti, on, "build", lg, None, 0.0, None)]
    mx = codec.max_bytes(t)
    small = sorted({0, 1, mx // 2, max(mx - 1, 0)} - {mx}) if (_TIER[0] == "quick" or cc.ser_only(t)) else list(range(0, mx))
    for bs in small:
        t0 = time.time()
        try:   # (b) every buffer below the maximum is refused with buffer-too-small, nothing is written anywhere
            lg = codec.ser_queries(tu, bs, check_ub="mem", functional=True)
        except Exception as e:
            lg = codec.QueryLog(); lg.unknown.append(f"{type(e).__name__}: {str(e)[-300:]}")
        out.append((ti, on, f"serialize into {bs} < max={mx} bytes", lg, tu, time.time() - t0, None))
    t0 = time.time()
    try:   # (a) the advertised size always suffices and the produced size never exceeds it (buffer is an exactly-sized object)
        lg = codec.ser_queries(tu, mx, check_ub="mem", functional=False)
    except Exception as e:
        lg = codec.QueryLog(); lg.unknown.append(f"{type(e).__name__}: {str(e)[-300:]}")
    out.append((ti, on, f"serialize into exactly the advertised {mx} bytes", lg, tu, time.time() - t0, None))
    try:
        out.append((ti, on, "metadata", codec.QueryLog(), tu, 0.0, _ground(t, tu)))
    except Exception as e:
        lg = codec.QueryLog(); lg.unknown.append(f"metadata probe failed: {str(e)[-400:]}")
        out.append((ti, on, "metadata", lg, tu, 0.0, None))
    return out


# ---------------------------------------------------------------------------------------------- ground part
def _field_arrays(t: pydsdl.CompositeType):
    return [f for f in D.inner(t).fields_except_padding if isinstance(f.data_type, pydsdl.ArrayType)]


def _ground(t: pydsdl.CompositeType, tu: codec.TypeUnit) -> typing.List[typing.Tuple[str, str, str]]:
    """returns [(what, observed, expected)] mismatches of the exported macros against the pydsdl model (evaluations, not solver verdicts)"""
    cn = tu.cn
    # the port-ID macros of a service live under the service's own name
    svc = cc.SVC_OF.get(t.full_name)
    idn = codec.cname(svc) if svc is not None else cn
    idt = svc if svc is not None else t
    L = [f"#include <{tu.hdr}>\n#include <stdio.h>\n#include <string.h>\n#include <stdint.h>\nint main(void){{\n"]

    def probe(key: str, macro: str, fmt: str, expr: typing.Optional[str] = None) -> None:
        L.append(f"#ifdef {macro}\n  printf(\"{key}={fmt}\\n\", {expr or macro});\n#else\n  printf(\"{key}=MISSING\\n\");\n#endif\n")
    probe("extent", f"{cn}_EXTENT_BYTES_", "%llu", f"(unsigned long long) {cn}_EXTENT_BYTES_")
    probe("bufsize", f"{cn}_SERIALIZATION_BUFFER_SIZE_BYTES_", "%llu", f"(unsigned long long) {cn}_SERIALIZATION_BUFFER_SIZE_BYTES_")
    probe("fullname", f"{cn}_FULL_NAME_", "%s")
    probe("fullnamever", f"{cn}_FULL_NAME_AND_VERSION_", "%s")
    probe("hasid", f"{idn}_HAS_FIXED_PORT_ID_", "%d", f"(int) {idn}_HAS_FIXED_PORT_ID_")
    if idt.has_fixed_port_id:
        probe("portid", f"{idn}_FIXED_PORT_ID_", "%llu", f"(unsigned long long) {idn}_FIXED_PORT_ID_")
    for f in _field_arrays(t):
        probe(f"cap.{f.name}", f"{cn}_{f.name}_ARRAY_CAPACITY_", "%llu", f"(unsigned long long) {cn}_{f.name}_ARRAY_CAPACITY_")
    if isinstance(D.inner(t), pydsdl.UnionType):
        probe("optcount", f"{cn}_UNION_OPTION_COUNT_", "%llu", f"(unsigned long long) {cn}_UNION_OPTION_COUNT_")
    for c in t.constants:
        m = f"{cn}_{c.name}"
        dt = c.data_type
        if isinstance(dt, pydsdl.FloatType):
            ct, n = ("double", 8) if dt.bit_length == 64 else ("float", 4)
            L.append(f"#ifdef {m}\n  {{ {ct} v = {m}; uint64_t b = 0; memcpy(&b, &v, {n}); printf(\"const.{c.name}=%llu\\n\", (unsigned long long) b); }}\n"
                     f"#else\n  printf(\"const.{c.name}=MISSING\\n\");\n#endif\n")
        else:
            # value as the storage type sees it, and the sign of the expression itself (a constant that is negative in DSDL must be < 0 in C)
            L.append(f"#ifdef {m}\n  printf(\"const.{c.name}=%lld/%d\\n\", (long long) ({m}), (int) (({m}) < 0));\n#else\n  printf(\"const.{c.name}=MISSING\\n\");\n#endif\n")
    L.append("  return 0; }\n")
    src = tu.work / f"md_{cn}.c"
    src.write_text("".join(L))
    exe = tu.work / f"md_{cn}"
    build.run([build.CLANG, "-std=c11", "-Wno-everything", "-o", str(exe), str(src)] + [x for i in tu.incs for x in ("-I", str(i))] + ["-D" + d for d in tu.defines])
    got = dict(l.split("=", 1) for l in subprocess.run([str(exe)], stdout=subprocess.PIPE, text=True, check=True).stdout.splitlines() if "=" in l)
    exp: typing.Dict[str, str] = {
        "extent": str(t.extent // 8), "bufsize": str(codec.max_bytes(t)), "fullname": t.full_name,
        "fullnamever": f"{t.full_name}.{t.version.major}.{t.version.minor}", "hasid": str(int(bool(idt.has_fixed_port_id))),
    }
    if idt.has_fixed_port_id:
        exp["portid"] = str(idt.fixed_port_id)
    for f in _field_arrays(t):
        exp[f"cap.{f.name}"] = str(f.data_type.capacity)
    if isinstance(D.inner(t), pydsdl.UnionType):
        exp["optcount"] = str(len(D.inner(t).fields))
    bad = []
    n_eval = 0
    for k, v in exp.items():
        n_eval += 1
        if got.get(k) != v:
            bad.append((k, str(got.get(k)), v))
    if int(exp["bufsize"]) > int(exp["extent"]):
        bad.append(("bufsize<=extent", exp["bufsize"], exp["extent"]))
    for c in t.constants:
        n_eval += 1
        g = got.get(f"const.{c.name}")
        q = c.value.native_value
        dt = c.data_type
        if g is None or g == "MISSING":
            bad.append((f"const.{c.name}", str(g), str(q)))
            continue
        if isinstance(dt, pydsdl.FloatType):
            w = 64 if dt.bit_length == 64 else 32
            if not _float_within_one_ulp(int(g), fractions.Fraction(q), w, dt.bit_length):
                bad.append((f"const.{c.name}", hex(int(g)), f"{q} rounded to float{dt.bit_length} within one ulp"))
        else:
            val, neg = g.split("/")
            want = int(q) if not isinstance(q, bool) else int(q)
            if isinstance(q, str):
                want = ord(q)
            if int(val) != (want if want < (1 << 63) else want - (1 << 64)) or int(neg) != int(want < 0):
                bad.append((f"const.{c.name}", g, f"{want} (value / is-negative)"))
    return [("__evaluations__", str(n_eval), "")] + bad


def _float_within_one_ulp(bits: int, q: fractions.Fraction, storage: int, declared: int) -> bool:
    """the C constant (storage float/double bit pattern) equals the exact rational rounded to the DECLARED type, within one unit in the
    last place of the declared type (ground z3 evaluation with fpRealToFP)"""
    S = z3.Float64() if storage == 64 else z3.Float32()
    Dk = {16: z3.Float16(), 32: z3.Float32(), 64: z3.Float64()}[declared]
    x = z3.fpBVToFP(z3.BitVecVal(bits, storage), S)
    r = z3.RealVal(f"{q.numerator}/{q.denominator}")
    lo = z3.fpRealToFP(z3.RTN(), r, Dk)
    hi = z3.fpRealToFP(z3.RTP(), r, Dk)
    # lo <= q <= hi are adjacent (or equal) values of the declared type; "within one ulp" = equals one of them
    # lo <= q <= hi are adjacent (or equal) values of the declared type; "within one unit in the last place" of the declared type:
    # the stored value lies between them (widening lo/hi to the storage format is exact)
    los = z3.fpFPToFP(z3.RNE(), lo, S)
    his = z3.fpFPToFP(z3.RNE(), hi, S)
    ok = z3.And(z3.Not(z3.fpIsNaN(x)), z3.fpLEQ(los, x), z3.fpLEQ(x, his))
    return z3.is_true(z3.simplify(ok))


# ---------------------------------------------------------------------------------------------- E3 lemma: bits -> bytes
def _bits2bytes_lemma(rep: common.Report) -> None:
    from nunavut.jinja import DSDLCodeGenerator
    src = textwrap.dedent(inspect.getsource(DSDLCodeGenerator.filter_bits2bytes_ceil))
    fn = [n for n in ast.walk(ast.parse(src)) if isinstance(n, ast.FunctionDef)][0]
    arg = fn.args.args[0].arg
    n = z3.Int(arg)

    def tr(e: ast.AST):
        if isinstance(e, ast.Constant) and isinstance(e.value, int):
            return z3.IntVal(e.value)
        if isinstance(e, ast.Name) and e.id == arg:
            return n
        if isinstance(e, ast.Call) and isinstance(e.func, ast.Name) and e.func.id == "int" and len(e.args) == 1:
            return tr(e.args[0])
        if isinstance(e, ast.BinOp):
            a, b = tr(e.left), tr(e.right)
            if isinstance(e.op, ast.Add):
                return a + b
            if isinstance(e.op, ast.Sub):
                return a - b
            if isinstance(e.op, ast.Mult):
                return a * b
            if isinstance(e.op, ast.FloorDiv):
                return a / b          # z3 Int division is floor division for positive divisors
        raise NotImplementedError(ast.dump(e))
    rets = [s for s in ast.walk(fn) if isinstance(s, ast.Return)]
    guards = [s for s in fn.body if isinstance(s, ast.If)]
    try:
        assert len(rets) == 1
        r = tr(rets[0].value)
        guard_ok = len(guards) == 1 and isinstance(guards[0].test, ast.Compare) and isinstance(guards[0].body[0], ast.Raise)
        s = z3.Solver()
        s.add(n >= 0, z3.Not(z3.And(8 * r >= n, 8 * (r - 1) < n, r >= 0)))
        t0 = time.time()
        res = s.check()
        rep.solver_s += time.time() - t0
        if res == z3.unsat and guard_ok:
            rep.discharged(1, key="lemma:bits2bytes", sample=dict(lemma="filter_bits2bytes_ceil(n) == ceil(n/8) for every integer n >= 0 (unbounded Int)",
                                                                 encoded_from="AST of nunavut.jinja.DSDLCodeGenerator.filter_bits2bytes_ceil", verdict="unsat"))
        elif res == z3.sat:
            v = s.model()[n].as_long()
            real = DSDLCodeGenerator.filter_bits2bytes_ceil(v)
            rep.counterexample("bits2bytes", f"filter_bits2bytes_ceil({v}) = {real}, not ceil({v}/8)", None, real != -(-v // 8))
        else:
            rep.unknown("lemma:bits2bytes", "guard shape changed or solver unknown")
    except (NotImplementedError, AssertionError) as e:
        rep.unknown("lemma:bits2bytes", f"function body is outside the translatable expression subset: {e}")


def _python_metadata(rep: common.Report, d, model_keys, include: bool, prop: str = "C05") -> int:
    """ground evaluation of the generated Python classes' attributes (subprocess, real numpy).  C05 takes the exported constants
    (model_keys excluded), C18 the embedded-model clause (model_keys only)."""
    from checks import py_common
    try:
        gen = py_common.generate(d, d / "dsdl" / "vt")
        res = py_common.python_metadata(gen, d / "dsdl" / "vt")
        # the same evaluation on a package generated through the Python API right after a DECOY revision of the namespace (same names and
        # layout, other constants and field names) in the same process: what an earlier run leaves behind must not leak into the output
        res += py_common.python_metadata(py_common.generate_after_decoy(d, d / "dsdl" / "vt"), d / "dsdl" / "vt")
    except Exception as e:
        rep.unknown("py:metadata", f"{type(e).__name__}: {str(e)[-300:]}")
        return 0
    n = 0
    for r in res:
        n += r["evaluations"]
        for k, got, exp in r["bad"]:
            if any(k.startswith(m) for m in model_keys) != include:
                continue
            rd = common.replay_dir(prop, dict(py=r["type"], k=k))
            (rd / "replay.sh").write_text(f"#!/bin/bash\necho 'generated Python class of {r['type']}: {k} is {got}, DSDL definition says {exp}'; exit 11\n")
            rep.counterexample(f"py:{r['type'].split('.')[1]}:metadata:{k.split(' ')[0]}", f"[py] {r['type']}: {k} = {got}, DSDL definition: {exp}", str(rd), True)
    rep.extra["python_ground_evaluations"] = n
    return n


def main(tier: str) -> int:
    rep = common.Report("C05", tier, "other")
    _TIER[0] = tier
    optnames = ["default", "little"] if tier == "quick" else ["default", "little", "little+asserts", "any+asserts"]
    n_ground = 0
    with common.scratch("nvc05_") as d:
        types, feats = cc.prepare(tier, d, optnames, metadata=True)
        _TYPES[:] = types
        tasks = [(i, on) for on in optnames for i in range(len(types))]
        for res in common.pmap(_work, tasks):
            for ti, on, what, lg, tu, wall, ground in res:
                cc.record(rep, types[ti], on, what, lg, tu, wall)
                if ground is not None:
                    for k, got, exp in ground:
                        if k == "__evaluations__":
                            n_ground += int(got)
                            continue
                        t = types[ti]
                        rd = common.replay_dir("C05", dict(t=t.full_name, k=k))
                        (rd / "replay.sh").write_text(f"#!/bin/bash\necho 'exported constant {k} of {t.full_name}: generated code says {got}, DSDL definition says {exp}'; exit 11\n")
                        rep.counterexample(f"{t.short_name}:metadata:{k.split('.')[0]}", f"[{on}] {t.full_name}: exported {k} = {got}, DSDL definition: {exp}", str(rd), True)
        n_ground += _python_metadata(rep, d, ("_MODEL_", "str(_MODEL_)", "get_class"), include=False)
        _bits2bytes_lemma(rep)
        rep.functions = ["<T>_serialize_ of every corpus type (size bounds; -O1 IR with memory obligations: bounds, uninitialised reads, const writes)", "nunavut.jinja.DSDLCodeGenerator.filter_bits2bytes_ceil (AST -> z3 Int)",
                         "exported macros <T>_EXTENT_BYTES_, _SERIALIZATION_BUFFER_SIZE_BYTES_, _HAS_FIXED_PORT_ID_, _FIXED_PORT_ID_, _FULL_NAME_, "
                         "_FULL_NAME_AND_VERSION_, _<field>_ARRAY_CAPACITY_, _UNION_OPTION_COUNT_, every DSDL constant (ground evaluation)"]
        rep.bounds = dict(types=len(types), option_sets=optnames, buffer_sizes=("{0,1,max/2,max-1} and exactly max" if tier == "quick" else "every size 0..max"),
                          data="every object byte symbolic (invalid counts/tags included)")
    rep.extra["ground_evaluations"] = n_ground
    rep.assumptions = ["the metadata comparison is a ground evaluation (no quantifier): the generated header is compiled and the macro values are compared with "
                       "pydsdl's model; floats via z3 fpRealToFP toward both neighbours ('within one ulp' of the declared type)",
                       "buffer objects are exactly sized, so a write past the advertised size is an out-of-bounds obligation failure"]
    rep.not_covered = ["C++ constexpr members", "types not in the corpus"]
    rep.functions.append("Python: class attributes _EXTENT_BYTES_, _FIXED_PORT_ID_ and every DSDL constant of every generated class (ground evaluation, real numpy); "
                         "'a buffer of the advertised size suffices' for Python is part of C01 (Serializer.new(_EXTENT_BYTES_) never overflows)")
    rep.extra["explanation"] = ("llsym: serialize with buffer = advertised size (rc==0 => size <= advertised <= extent, no access outside) and with every smaller "
                                "size (always buffer-too-small, nothing written); integer lemma for bits->bytes; exported constants compared with the DSDL model")
    rep.extra["trusted_base"] = ["clang 14", "z3 5.1", "llsym interpreter", "pydsdl"]
    return rep.write()


if __name__ == "__main__":
    sys.exit(main(sys.argv[1] if len(sys.argv) > 1 else "quick"))
