"""C12 -- regeneration over existing output is safe for every history (E2: one inductive step from an arbitrary state)."""
import sys
from lib import common
from xh.runner import Cond, run_conditions


def main(tier: str) -> int:
    rep = common.Report("C12", tier, "other")
    rep.functions = ["nunavut.jinja.CodeGenerator._handle_overwrite", "nunavut.jinja.CodeGenerator._generate_code",
                     "nunavut.jinja.SupportGenerator._copy_header", "nunavut.jinja.SupportGenerator._copy_header_using_line_pps",
                     "nunavut._postprocessors.SetFileMode.__call__", "nunavut.cli.runners.ArgparseRunner._build_post_processor_list_from_args"]
    M = "h_C12"
    P = dict(C12_FULL="1" if tier != "quick" else "0")
    T = 400 if tier == "quick" else 3000
    conds = [Cond(M, f, T, 60, P) for f in ("step_template", "step_copy", "two_runs")]
    rep.bounds = dict(pre_state="target absent | present with mode m; a foreign read-only sibling file",
                      mode=("all 512 values" if tier != "quick" else "8 owner-bit patterns x {000,044,022,077} group/other"),
                      file_mode="all 512 values (symbolic, never inspected by the code)", allow_overwrite="both",
                      line_processors="none | trim | limit(1)", code_paths="template generation and copied support file")
    rep.assumptions = ["FakeFS models POSIX owner semantics for a non-root user with umask 022 (open-for-write needs u+w; shutil.copy copies mode)",
                       "root user and non-POSIX file systems are outside", "one inductive step from an arbitrary pre-state stands for all histories: "
                       "the pre-state ranges over every (existence, mode) a previous run or a foreign tool can leave"]
    rep.not_covered = ["ExternalProgramEditInPlace post-processor (runs a subprocess)", "directory creation failures", "concurrent runs"]
    rep.extra["explanation"] = ("CrossHair/z3 symbolic execution of the real overwrite/generate/copy code on an in-memory POSIX file-system "
                                "model with symbolic pre-existing mode, requested mode and flags; inductive step instead of history exploration")
    rep.extra["trusted_base"] = ["crosshair-tool 0.0.110", "z3", "CPython 3.12", "xh/fakefs.py POSIX model"]
    run_conditions(rep, conds)
    return rep.write()


if __name__ == "__main__":
    sys.exit(main(sys.argv[1] if len(sys.argv) > 1 else "quick"))
