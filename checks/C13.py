"""C13 -- configuration merge precedence, deep union, aliasing, getters, shorthands, builder isolation (E2)."""
import sys
from lib import common
from xh.runner import Cond, run_conditions


def main(tier: str) -> int:
    rep = common.Report("C13", tier, "other")
    rep.functions = ["nunavut._utilities.deep_update", "nunavut._utilities.DefaultValue.assign_to_if_not_default",
                     "nunavut._utilities.no_default_value", "nunavut.lang._config.LanguageConfig.update",
                     "nunavut.lang._config.LanguageConfig.update_section", "nunavut.lang._config.LanguageConfig._get_config_value_raw",
                     "nunavut.lang.cpp.Language._validate_language_options", "nunavut.lang.LanguageContextBuilder.create",
                     "nunavut.lang.LanguageContextBuilder.set_target_language_configuration_override",
                     "nunavut.lang.LanguageContextBuilder.add_config_files", "nunavut.lang._config.LanguageConfig.update_from_yaml_file",
                     "nunavut.lang._language.Language.get_option", "nunavut.cli._make_parser (its defaults)",
                     "nunavut.cli.runners.ArgparseRunner._create_language_context"]
    M = "h_C13"
    T = 900 if tier == "quick" else 2400     # upper bounds only: measured walls are in evidence (condition_walls_s); 3x headroom and more
    names = ["merge_ref3", "sources_unmodified3", "result_independent_of_later_source_edits", "getters_never_default",
             "shorthand_group", "builder_isolation", "config_file_order_ignores_hash_order", "cli_defaults_never_displace_file_values"]
    if tier != "quick":
        names.append("merge_ref2k")
    conds = [Cond(M, f, T, 60) for f in names if f not in ("shorthand_group", "cli_defaults_never_displace_file_values")]
    conds += [Cond(M, "cli_defaults_never_displace_file_values", T, 120, dict(C13_FE=str(a), C13_FL=str(b))) for a in range(4) for b in range(4)]
    conds += [Cond(M, "shorthand_group", T, 60, dict(C13_STD=str(i))) for i in range(5)]
    conds += [Cond(M, "shorthand_unit", T, 60, dict(C13_STD=str(i))) for i in (3, 4)]
    conds += [Cond(M, "builder_chain", max(T, 600), 120, dict(C13_OVK=str(k), C13_ONECALL=str(o), C13_SMALL=("1" if tier == "quick" else "0")))
              for k in (0, 1, 2) for o in (0, 1)]
    rep.bounds = dict(sources="<= 3 documents over 1 key (thorough: also 2 keys x 2 documents)", depth="<= 3",
                      value_kinds="absent | explicit int | DefaultValue(int) | map{x: explicit | default | map{y: int}}",
                      leaf_ints="unbounded symbolic", shorthand="5 std values x 256 explicit-option subsets",
                      builder_isolation="override values 0..3 x 0..3",
                      cli="file endianness absent|little|big|any x flag absent|little|big|any x file/flag asserts (real argparse parser and runner)")
    rep.assumptions = ["documents drawn from the stated grammar only; wider/deeper maps are outside the bound",
                       "a map value counts as explicit (the code and docstring agree)",
                       "builder isolation is demanded across *different* builders only (documented), not for re-use of one builder"]
    rep.not_covered = ["YAML text parsing of override files (the parsed documents are symbolic; the built-in properties.yaml is parsed for real)", "more than 3 sources / 2 keys / depth 3", "CLI options other than --target-endianness / --enable-serialization-asserts / --configuration (the real parser's defaults apply to the rest)"]
    rep.extra["explanation"] = ("CrossHair/z3 symbolic execution of deep_update and the config accessors over symbolic document shapes "
                                "and leaf values, compared with a reference merge over immutable snapshots; aliasing checked by "
                                "snapshotting sources before/after and after a further merge into the result")
    rep.extra["trusted_base"] = ["crosshair-tool 0.0.110", "z3", "CPython 3.12"]
    run_conditions(rep, conds)
    return rep.write()


if __name__ == "__main__":
    sys.exit(main(sys.argv[1] if len(sys.argv) > 1 else "quick"))
