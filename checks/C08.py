"""C08 -- listing and dry-run modes tell the truth (E2 on the CLI dispatch + real generator entry points on FakeFS)."""
import itertools
import os
import pathlib
import subprocess
import sys

from lib import common
from xh.runner import Cond, run_conditions

GS = ("always", "never", "as-needed", "only")


def _nnvg(args, cwd):
    env = dict(os.environ); env.pop("VERIF_UNDER_CROSSHAIR", None)
    return subprocess.run([common.PY, "-m", "nunavut"] + args, cwd=cwd, env=env, stdout=subprocess.PIPE, stderr=subprocess.PIPE, text=True)


def _cosim_one(a):
    """Validate the stub contract against the real nnvg on a 3-type namespace: listed set == created set; listing/dry-run create nothing."""
    lang, gs, omit, nst = a
    with common.scratch("nvc08_") as d:
        base = ["--target-language", lang, "--generate-support", gs] + (["--omit-serialization-support"] if omit else []) \
            + (["--generate-namespace-types"] if nst else []) + (["--experimental-languages"] if lang != "c" else [])
        ns = str(common.VERIF / "data" / "ns1" / "vt")
        r1 = _nnvg(base + ["--list-outputs", "-O", str(d / "o"), ns], str(d))
        if r1.returncode != 0:
            if "Logic error" in r1.stderr:
                return (a, "rejected", "")
            r2 = _nnvg(base + ["-O", str(d / "o"), ns], str(d))
            return (a, "generation-fails" if r2.returncode != 0 else "error", r1.stderr[-300:])
        leaked = (d / "o").exists()
        r3 = _nnvg(base + ["--dry-run", "-O", str(d / "o"), ns], str(d))
        leaked = leaked or (d / "o").exists()
        r2 = _nnvg(base + ["-O", str(d / "o"), ns], str(d))
        if r2.returncode != 0:
            # the property is stated for option combinations for which generation succeeds
            return (a, "generation-fails", r2.stderr[-200:])
        if r3.returncode != 0:
            return (a, "error", r3.stderr[-300:])
        listed = sorted(os.path.relpath(x, str(d / "o")) for x in r1.stdout.split(";") if x.strip())
        created = sorted(str(p.relative_to(d / "o")) for p in (d / "o").rglob("*") if p.is_file())
        if listed != created:
            return (a, "mismatch", dict(listed=listed, created=created))
        if leaked:
            return (a, "side-effect", "listing or dry-run created the output directory")
        return (a, "ok", len(created))


def _cosim_inputs(a):
    """what a real run READS (template files through the loaders, DSDL definitions) must be named by --list-inputs"""
    import json
    lang, gs, omit = a[:3]
    user_templates = a[3] if len(a) > 3 else None
    with common.scratch("nvc08i_") as d:
        if user_templates == "@partial":
            # an INCOMPLETE user template directory: only the per-type entry templates (copied from the current built-ins); everything they
            # extend/import is missing.  Either generation fails (nothing is produced, nothing to list) or every file it read is listed.
            import nunavut.lang
            src = pathlib.Path(nunavut.lang.__file__).parent / lang / "templates"
            user_templates = str(d / "partial_templates")
            os.makedirs(user_templates)
            for n in ("StructureType.j2", "UnionType.j2", "ServiceType.j2", "DelimitedType.j2"):
                if (src / n).exists():
                    (pathlib.Path(user_templates) / n).write_text((src / n).read_text())
        base = ["--target-language", lang, "--generate-support", gs] + (["--omit-serialization-support"] if omit else []) \
            + (["--experimental-languages"] if lang != "c" else []) + (["--templates", user_templates] if user_templates else [])
        ns = str(common.VERIF / "data" / "ns1" / "vt")
        r1 = _nnvg(base + ["--list-inputs", "-O", str(d / "o"), ns], str(d))
        if r1.returncode != 0:
            return (a, "rejected" if "Logic error" in r1.stderr else "error", r1.stderr[-300:])
        if (d / "o").exists():
            return (a, "side-effect", "--list-inputs created the output directory")
        listed = {str(pathlib.Path(x).resolve()) for x in r1.stdout.split(";") if x.strip()}
        env = dict(os.environ); env.pop("VERIF_UNDER_CROSSHAIR", None)
        r2 = subprocess.run([common.PY, str(common.VERIF / "xh" / "trace_inputs.py")] + base + ["-O", str(d / "o"), ns], cwd=str(d), env=env,
                            stdout=subprocess.PIPE, stderr=subprocess.PIPE, text=True)
        line = [l for l in r2.stdout.splitlines() if l.startswith("@@TRACE@@")]
        if r2.returncode != 0 or not line:
            return (a, "generation-fails", r2.stderr[-200:])
        tr = json.loads(line[0][len("@@TRACE@@"):])
        read = {str(pathlib.Path(x).resolve()) for x in tr["templates"] + tr["dsdl"]}
        missing = sorted(read - listed)
        if missing:
            return (a, "unlisted-input", dict(read_but_not_listed=missing))
        return (a, "ok", len(read))


def main(tier: str) -> int:
    rep = common.Report("C08", tier, "other")
    rep.functions = ["nunavut.cli.runners.ArgparseRunner.run", "ArgparseRunner._list_outputs_only", "ArgparseRunner._list_inputs_only",
                     "ArgparseRunner._generate", "ArgparseRunner._should_generate_support", "nunavut.cli._NunavutArgumentParser._post_process_args",
                     "nunavut.jinja.DSDLCodeGenerator._generate_type", "nunavut.jinja.SupportGenerator._generate_header",
                     "nunavut.jinja.SupportGenerator._copy_header", "nunavut.jinja.CodeGenerator._generate_code"]
    M = "h_C08"
    T = 300 if tier == "quick" else 1200
    conds = [Cond(M, f, T, 60) for f in ("listing_truth", "dry_run_and_input_listing_touch_nothing", "real_generators_honour_dryrun")]
    rep.bounds = dict(flags="generate_support in {always,never,as-needed,only} x omit_serialization_support x generate_namespace_types x "
                            "no_overwrite x {list-outputs, list-inputs, dry-run, real}", generators="contract stubs over an abstract file set",
                      real_entry_points="_generate_type / _generate_header / _copy_header with symbolic is_dryrun on FakeFS")
    rep.assumptions = ["generator stubs implement the documented generate_all contract; the contract itself is validated against the real nnvg "
                       "by co-simulation on a 3-type namespace (counted under traces_validated_against_impl)",
                       "flag combinations rejected by the real _post_process_args are assumed away (documented precondition)"]
    rep.not_covered = ["input-listing completeness as *influence* (not expressible as a solver assertion); its observable lower bound -- every "
                       "template/DSDL file a real run reads is listed -- is checked by concrete co-simulation only, not by the solver",
                       "custom template directories beyond the one of /verif/data/ut1 (concrete co-simulation only), output extension / namespace stem overrides", "lookup (dependency) namespaces"]
    rep.extra["explanation"] = ("CrossHair/z3 over the real CLI dispatch with every flag symbolic: listed set == set a real run creates; "
                                "listing/dry-run only ever call generators in dry-run mode; real generator entry points write nothing when is_dryrun")
    rep.extra["trusted_base"] = ["crosshair-tool 0.0.110", "z3", "CPython 3.12", "generator contract stubs (validated by co-simulation)"]
    run_conditions(rep, conds)
    # co-simulation of the stub contract with the real tool (concrete; a failure here is a concretely demonstrated violation)
    langs = ["c", "py"] if tier == "quick" else ["c", "cpp", "py", "html"]
    combos = [(l, g, o, n) for l in langs for g in GS for o in (False, True) for n in (False, True)]
    res = common.pmap(_cosim_one, combos)
    ok = 0
    for a, verdict, detail in res:
        if verdict == "ok":
            ok += 1
        if verdict in ("ok", "rejected", "generation-fails"):
            continue
        rd = common.replay_dir("C08", dict(cosim=a))
        flags = f"--target-language {a[0]} --generate-support {a[1]}" + (" --omit-serialization-support" if a[2] else "") + \
                (" --generate-namespace-types" if a[3] else "") + (" --experimental-languages" if a[0] != "c" else "")
        (rd / "replay.sh").write_text("#!/bin/bash\n# compare the listing with what a real run creates\nD=$(mktemp -d); cd $D\n"
                                      f"{common.PY} -m nunavut {flags} --list-outputs -O $D/o {common.VERIF}/data/ns1/vt | tr ';' '\\n' | sort > listed.txt\n"
                                      f"{common.PY} -m nunavut {flags} -O $D/o {common.VERIF}/data/ns1/vt; find $D/o -type f | sort > created.txt\n"
                                      "diff listed.txt created.txt && echo SAME || { echo DIFFERENT; exit 11; }\n")
        os.chmod(rd / "replay.sh", 0o755)
        if verdict == "error":
            rep.unknown(f"cosim{a}", f"nnvg failed: {detail}")
        else:
            rep.counterexample(f"cosim-{verdict}-{a[1]}-omit{int(a[2])}", f"real nnvg {flags}: {verdict}: {detail}", str(rd), True)
    if ok < 10 * len(langs) // 2:
        rep.unknown("cosim", f"only {ok} of {len(combos)} option combinations generated successfully: co-simulation is not meaningful")
    rep.extra["traces_validated_against_impl"] = ok
    rep.extra["cosim_runs"] = len(combos)
    # input listing: every template file and DSDL file a real run reads is named by --list-inputs (concrete co-simulation;
    # "influence" as such is not a solver-expressible notion, "is read by the run" is its observable lower bound)
    icombos = [(l, g, o) for l in langs for g in ("as-needed", "never", "always") for o in (False, True)]
    # a user template directory whose templates include same-named files from different sub-directories
    icombos += [("c", "never", False, str(common.VERIF / "data" / "ut1")), ("c", "as-needed", True, str(common.VERIF / "data" / "ut1"))]
    icombos += [(l, "never", False, "@partial") for l in ("c", "cpp", "py")]
    iok = 0
    for a, verdict, detail in common.pmap(_cosim_inputs, icombos):
        if verdict == "ok":
            iok += 1
        if verdict in ("ok", "rejected", "generation-fails"):
            continue
        rd = common.replay_dir("C08", dict(cosim_inputs=a))
        flags = f"--target-language {a[0]} --generate-support {a[1]}" + (" --omit-serialization-support" if a[2] else "") + \
                (" --experimental-languages" if a[0] != "c" else "") + (f" --templates {a[3]}" if len(a) > 3 else "")
        (rd / "replay.sh").write_text("#!/bin/bash\n# templates/DSDL files read by a real run vs --list-inputs\nD=$(mktemp -d); cd $D\n"
                                      f"{common.PY} -m nunavut {flags} --list-inputs -O $D/o {common.VERIF}/data/ns1/vt | tr ';' '\\n' | sort > listed.txt\n"
                                      f"{common.PY} {common.VERIF}/xh/trace_inputs.py {flags} -O $D/o {common.VERIF}/data/ns1/vt | grep @@TRACE@@\n"
                                      "echo 'compare the traced files with listed.txt'; exit 11\n")
        os.chmod(rd / "replay.sh", 0o755)
        if verdict == "error":
            rep.unknown(f"cosim-inputs{a}", f"nnvg failed: {detail}")
        else:
            key = f"cosim-inputs-{verdict}-{a[0]}"
            if verdict == "unlisted-input" and a[0] == "html" and all(not m.endswith((".j2", ".dsdl")) for m in detail["read_but_not_listed"]):
                key = "html-included-assets-not-listed"      # listed finding: only the non-template files html templates {% include %}
            rep.counterexample(key, f"real nnvg {flags}: {verdict}: {detail}", str(rd), True)
    if iok < len(icombos) // 2:
        rep.unknown("cosim-inputs", f"only {iok} of {len(icombos)} input-listing co-simulations ran")
    rep.extra["input_listing_cosim"] = dict(runs=len(icombos), ok=iok)
    return rep.write()


if __name__ == "__main__":
    sys.exit(main(sys.argv[1] if len(sys.argv) > 1 else "quick"))
