"""C15 -- line post-processing is chunking-independent (E2, CrossHair over the real line buffer and processors)."""
import sys
from lib import common
from xh.runner import Cond, run_conditions


def main(tier: str) -> int:
    rep = common.Report("C15", tier, "other")
    rep.functions = ["nunavut.jinja.CodeGenerator._generate_with_line_buffer", "nunavut.jinja.CodeGenerator._filter_and_write_line",
                     "nunavut._postprocessors.TrimTrailingWhitespace.__call__", "nunavut._postprocessors.LimitEmptyLines.__call__",
                     "nunavut.jinja.SupportGenerator._copy_header_using_line_pps"]
    M = "h_C15"
    full = "{a, space, tab, CR, LF, NBSP}"
    small = "{a, space, CR, LF}"
    if tier == "quick":
        P = dict(C15_K="2", C15_K1="3", C15_NMAX="2")
        PS = dict(C15_K="2", C15_K1="3", C15_NLO="1", C15_NMAX="1", C15_SIG="small")
        conds = [Cond(M, f, 300, 60, P) for f in ("identity2", "identity1", "trim1", "limit1", "limit2", "limiter_contract", "copy_header")]
        conds += [Cond(M, f, 300, 60, PS) for f in ("trim2", "trim_limit2", "limit_trim2")]
        rep.bounds = dict(chunks="<= 2", chars_per_chunk=2, single_chunk_chars=3, N="0..2 (N=1 for processor pairs)",
                          alphabet=f"identity: any unicode; single processor: {full}; trim2 and processor pairs: {small}")
    else:
        P = dict(C15_K="2", C15_K1="4", C15_NMAX="2")
        conds = [Cond(M, f, 2400, 120, P) for f in ("identity2", "identity1", "trim1", "trim2", "limit1", "limit2", "limiter_contract", "copy_header")]
        for n in ("0", "1", "2"):
            Pn = dict(P, C15_NLO=n, C15_NMAX=n)
            conds += [Cond(M, f, 2400, 120, Pn) for f in ("trim_limit2", "limit_trim2")]
        conds += [Cond(M, "chunk3", 2400, 120, dict(P, C15_SIG="small"))]
        rep.bounds = dict(chunks="<= 3 (3 chunks: total <= 4 chars, real-vs-real)", chars_per_chunk=2, single_chunk_chars=4, N="0..2",
                          alphabet=f"identity: any unicode; processors: {full}; chunk3: {small}")
    rep.assumptions = [
        "strings over the stated alphabet and lengths only (class representatives; not a proof for longer texts)",
        "copy_header: resource text ends with a newline (unit-level chop of an unterminated last line is a DESIGN.md section 7 note)",
        "file objects are pure-Python stand-ins (write/iterate), text-mode universal newlines modelled as documented",
        "CrossHair 0.0.110 'Confirmed over all paths' is trusted; counterexamples are replayed natively",
    ]
    rep.not_covered = ["texts longer than the bound", "more than 3 chunks", "processors other than the two built-in ones"]
    rep.extra["explanation"] = ("CrossHair symbolic execution (z3) of the real line buffer with symbolic chunk strings; each condition "
                                "compares the real output with a direct line-by-line definition over the concatenated text")
    rep.extra["trusted_base"] = ["crosshair-tool 0.0.110", "z3", "CPython 3.12"]
    run_conditions(rep, conds)
    return rep.write()


if __name__ == "__main__":
    sys.exit(main(sys.argv[1] if len(sys.argv) > 1 else "quick"))
