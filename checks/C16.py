"""C16 -- template resolution and environment contract (E2, CrossHair over the real loader / generator / environment)."""
import sys
from lib import common
from xh.runner import Cond, run_conditions


def main(tier: str) -> int:
    rep = common.Report("C16", tier, "other")
    rep.functions = ["nunavut.jinja.loaders.DSDLTemplateLoader.type_to_template / _type_to_template_internal / _filter_template_list_by_suffix / get_source",
                     "nunavut.jinja.DSDLCodeGenerator.filter_type_to_template / _create_all_dsdl_tests / _create_instance_tests_for_type",
                     "nunavut.jinja.environment.CodeGenEnvironmentBuilder.create", "CodeGenEnvironment.__init__ / _add_each_to_environment / "
                     "_add_conventional_method_to_environment / _add_to_environment", "LanguageEnvironment._parse_callable_name"]
    M = "h_C16"
    T = 600 if tier == "quick" else 2400
    import pydsdl
    if tier == "quick":
        pairs = [("StructureType", "ServiceType"), ("ServiceType", "StructureType"), ("DelimitedType", "UnionType"), ("UnsignedIntegerType", "FloatType"),
                 ("VariableLengthArrayType", "FixedLengthArrayType"), ("Constant", "Field")]
    else:
        names = sorted(c for c in dir(pydsdl) if isinstance(getattr(pydsdl, c), type) and issubclass(getattr(pydsdl, c), pydsdl.Any))
        pairs = [(a, b) for a in names for b in names if a != b and (hash((a, b)) % 5 == 0 or b in ("ServiceType", "CompositeType", "Any"))]
    conds = []
    for q, w in pairs:
        for user in ("1", "0"):
            for zsub in ("1", "0"):
                conds.append(Cond(M, "resolution_single_set", T, 120, dict(C16_Q=q, C16_W=w, C16_USER=user, C16_ZSUB=zsub)))
    conds.append(Cond(M, "user_template_shadows_builtin_of_same_name", T, 120, dict(C16_Q="StructureType", C16_W="ServiceType")))
    conds.append(Cond(M, "instance_tests_agree", T, 120))
    conds.append(Cond(M, "additions_never_replace_silently", T, 300))
    rep.bounds = dict(class_pairs=len(pairs), availability="per ancestor name on both chains: absent | present; one name additionally with a same-stem copy in a sub-folder sorted "
                      "before/after the top level and a non-template sibling", cache="cold, or warmed by a lookup of the second class", template_set="user directories or built-ins (FIND_FIRST)",
                      instance_tests="all pairs (test class, value class) of the real pydsdl class graph", additions="filters/tests/globals: existing, prefixed, Jinja "
                      "built-in, reserved, language-global and fresh names x overwrite flag")
    rep.assumptions = ["type templates come from ONE set (DSDLCodeGenerator uses FIND_FIRST); a nearer built-in vs. a farther user template cannot occur there and is not demanded",
                       "Attribute-rooted instance tests applied to Attribute values are ambiguous in the statement and not asserted",
                       "Jinja's own default globals (range, dict, ...) are not covered by the documented reserved-name contract and not asserted"]
    rep.not_covered = ["real directory enumeration (the listing is a symbolic sorted list of relative paths)", "template names other than class names"]
    rep.extra["explanation"] = ("CrossHair/z3 symbolic execution of the real resolver with a symbolic template listing and cache pre-state, compared with "
                                "'nearest ancestor by BFS over the real __bases__'; finite-domain symbolic indices for the instance-test and registration contracts")
    rep.extra["trusted_base"] = ["crosshair-tool 0.0.110", "z3", "CPython 3.12", "pydsdl class graph"]
    run_conditions(rep, conds)
    return rep.write()


if __name__ == "__main__":
    sys.exit(main(sys.argv[1] if len(sys.argv) > 1 else "quick"))
