"""C07 -- reproducible output as non-interference of ambient state (E2, CrossHair; one path when the property holds)."""
import sys
from lib import common
from xh.runner import Cond, run_conditions


def main(tier: str) -> int:
    rep = common.Report("C07", tier, "other")
    rep.functions = ["nunavut.jinja.DSDLCodeGenerator.generate_all / _generate_type / _generate_code", "nunavut.jinja.SupportGenerator.generate_all / _generate_header",
                     "built-in templates of c, cpp, html (types, namespaces, support) and of py (Namespace.j2, nunavut_support.j2)",
                     "nunavut.lang.py.filter_pickle", "nunavut._dependencies.Dependencies", "nunavut._namespace.Namespace", "post-processors (none enabled)"]
    M = "h_C07"
    T = 900 if tier == "quick" else 3000
    conds = []
    names = ("clock_does_not_matter", "input_location_does_not_matter", "output_location_does_not_matter", "hash_order_does_not_matter")
    for lang in ("c", "cpp", "html"):
        for f in names:
            conds.append(Cond(M, f, T, 600, dict(C07_LANG=lang, C07_SCOPE="all")))
    # python: the type template does not complete a single path under tracing (DESIGN.md): namespace files and support module only
    for f in names:
        conds.append(Cond(M, f, T, 600, dict(C07_LANG="py", C07_SCOPE="nsonly")))
    for f in ("clock_does_not_matter", "output_location_does_not_matter"):
        conds.append(Cond(M, f, T, 600, dict(C07_LANG="py", C07_SCOPE="support")))
    conds.append(Cond("h_C07p", "pickle_ignores_clock", 300, 120))
    conds.append(Cond("h_C07p", "pickle_ignores_input_location__kf_pickled_model_abs_path", 300, 120, expect="known", key="pickled-model-abs-path"))
    rep.bounds = dict(namespace="/verif/data/ns1 (3 types, nested namespace, union, arrays, constants)", languages="c, cpp, html: all output; py: namespace files, support module, pickle filter",
                      clock="any int", input_root="any string of <= 3 characters", output_root="two roots of different depth", set_order="all rotations/reversals of insertion order (n <= 3: all permutations)")
    rep.assumptions = ["embed_auditing_info is False (the default)", "ambient state reaches the generators only through the stubbed channels: datetime.utcnow, time.time (gzip), "
                       "CompositeType.source_file_path, the output root, iteration order of the sets in _dependencies/_namespace",
                       "cwd and 'another process' have no in-process handle and are covered only in so far as they act through those channels"]
    rep.not_covered = ["python type template (base.j2 + codecs): no path completes under tracing in 400 s; not part of the claim", "namespaces other than the fixed one",
                       "user templates"]
    rep.extra["explanation"] = ("non-interference by symbolic execution: if the generators never inspect the symbolic ambient value CrossHair explores one path and "
                                "confirms for every value; any dependence yields a counterexample, replayed natively")
    rep.extra["trusted_base"] = ["crosshair-tool 0.0.110", "z3", "CPython 3.12", "FakeFS"]
    run_conditions(rep, conds)
    return rep.write()


if __name__ == "__main__":
    sys.exit(main(sys.argv[1] if len(sys.argv) > 1 else "quick"))
