"""Shared driver of the generated-codec checks C01 / C02 / C04 / C05 (C target): corpus -> nnvg -> clang IR -> llsym -> z3."""
from __future__ import annotations

import os
import pathlib
import random
import shutil
import sys
import time
import typing

import pydsdl

from lib import common
from llsym import build, codec, core, corpus

OPTSETS = {
    # option sets whose name starts with "cpp" select the C++ target (executed through the C mirror harness of llsym/cppunit.py)
    "cpp14": dict(target_endianness="any", asserts=False, std="c++14", lang="cpp"),
    "cpp17": dict(target_endianness="any", asserts=False, std="c++17", lang="cpp"),
    "cpp14+little+asserts": dict(target_endianness="little", asserts=True, std="c++14", lang="cpp"),
    "default": dict(target_endianness="any", asserts=False),
    "little": dict(target_endianness="little", asserts=False),
    "any+asserts": dict(target_endianness="any", asserts=True),
    "little+asserts": dict(target_endianness="little", asserts=True),
}

_CTX: dict = {}
SVC_OF: typing.Dict[str, pydsdl.ServiceType] = {}


def corpus_entries(tier: str, metadata: bool = False) -> typing.List[corpus.Entry]:
    es = corpus.all_entries(common.seed(), 0 if tier == "quick" else 24, metadata)
    if tier == "quick":
        q = set(corpus.quick_names()) | {"In1", "In2", "InD", "InE", "U_prim"} | {e[0] for e in corpus._metadata()}
        es = [e for e in es if e[0] in q]
    return es


def prepare(tier: str, root: pathlib.Path, optnames: typing.Sequence[str], metadata: bool = False) -> typing.Tuple[typing.List[pydsdl.CompositeType], dict]:
    es = corpus_entries(tier, metadata)
    ns = corpus.write(root / "dsdl", es)
    types = pydsdl.read_namespace(str(ns), [], allow_unregulated_fixed_port_id=True)
    gens = {}
    for on in optnames:
        out = root / ("gen_" + on.replace("+", "_"))
        o = {k: v for k, v in OPTSETS[on].items() if k != "lang"}
        if OPTSETS[on].get("lang") == "cpp":
            build.nnvg("cpp", out, ns, opts=o, extra=["--allow-unregulated-fixed-port-id"])
            if "default" not in gens and not (root / "gen_default").exists():
                build.nnvg("c", root / "gen_default", ns, opts=OPTSETS["default"], extra=["--allow-unregulated-fixed-port-id"])     # mirror structs
        else:
            build.nnvg("c", out, ns, opts=o, extra=["--allow-unregulated-fixed-port-id"])
        gens[on] = out
    feats = {n.split(".")[-1]: f for n, _, f in es}
    # services contribute their request and response types
    flat: typing.List[pydsdl.CompositeType] = []
    SVC_OF.clear()
    for t in types:
        if isinstance(t, pydsdl.ServiceType):
            flat += [t.request_type, t.response_type]
            SVC_OF[t.request_type.full_name] = t
            SVC_OF[t.response_type.full_name] = t
        else:
            flat.append(t)
    _CTX.update(root=root, gens=gens, feats=feats, tier=tier)
    return flat, feats


def defines_for(on: str) -> typing.List[str]:
    return ["NUNAVUT_ASSERT(x)=assert(x)"] if OPTSETS[on]["asserts"] else []


def is_cpp(on: str) -> bool:
    return OPTSETS[on].get("lang") == "cpp"


class NotCovered(Exception):
    pass


def unit_for(t: pydsdl.CompositeType, on: str, variant: str) -> codec.TypeUnit:
    root = _CTX["root"]
    if is_cpp(on) and ser_only(t):
        raise NotCovered("255-element containers through the C++ mirror harness are outside the budget (C and Python serializers only)")
    if is_cpp(on):
        from llsym import cppunit
        if cppunit.has_bool_array(t):
            raise NotCovered("C++ bit arrays (std::bitset / std::vector<bool>) are not covered: word-level bit code exceeds the budget")
    work = root / f"work_{on.replace('+', '_')}_{variant}_{os.getpid()}"
    if is_cpp(on):
        from llsym import cppunit
        # C++ is executed on -O1 IR only (the -O0 IR of the standard library is not inlined and far outside the budget)
        tu = cppunit.CppTypeUnit(t, root / "gen_default", _CTX["gens"][on], work, "B", OPTSETS[on]["std"], defines_for(on))
    else:
        tu = codec.TypeUnit(t, _CTX["gens"][on], work, variant, defines_for(on))
    tu.budget_s = 300.0 if _CTX.get("tier", "quick") == "quick" else 2400.0      # per run; exceeding it is inconclusive, never a pass
    return tu


def ser_only(t: pydsdl.CompositeType) -> bool:
    """corpus types named S_*: serialization queries only (see llsym/corpus.py)"""
    return t.short_name.startswith("S_")


def des_lengths(t: pydsdl.CompositeType, tier: str) -> typing.List[int]:
    if ser_only(t):
        return []
    ext = codec.extent_bytes(t)
    mx = codec.max_bytes(t)
    if tier == "quick":
        return sorted({0, 1, (mx + 1) // 2, max(mx - 1, 0), mx, mx + 2} | ({ext} if ext <= mx + 4 else set()))
    top = min(max(ext, mx) + 2, mx + 6)
    return list(range(0, top + 1))


def record(rep: common.Report, t: pydsdl.CompositeType, on: str, what: str, log: codec.QueryLog, tu: typing.Optional[codec.TypeUnit], wall: float,
           sample_p: float = 0.05, replayer: typing.Optional[typing.Callable] = None) -> None:
    key = f"{on}:{t.full_name}:{what}"
    slow = rep.extra.setdefault("slowest_runs", [])
    slow.append((round(wall, 1), key, log.paths))
    slow.sort(reverse=True)
    del slow[12:]
    rep.paths += log.paths
    rep.solver_s += log.solver_s
    for n in log.notes:
        s = f"{t.full_name}: {n}"
        if s not in rep.notes:
            rep.notes.append(s)
    if log.unsat:
        rep.discharged(log.unsat, key=key, sample=dict(options=on, type=t.full_name, run=what, paths=log.paths, queries_unsat=log.unsat,
                                                      wall_s=round(wall, 2), feature=_CTX["feats"].get(t.short_name, "")))
    for u in log.unknown:
        if on.startswith("cpp17") and ("unsupported: external" in u or "build failed" in u):
            # c++17 flavour (std::variant): attempted in the thorough tier only; IR outside the executor's subset, or a header clang 14 rejects,
            # is reported as not covered (DESIGN.md section 3), never as passed
            n = f"{t.full_name}: NOT COVERED [{on}]: {u[:160]}"
            if n not in rep.notes:
                rep.notes.append(n)
            continue
        rep.unknown(key, u)
    for c in log.cex:
        c = dict(c)
        if replayer is not None:
            ok, how = replayer(tu, c, on)
        else:
            ok, how = (False, "no unit") if tu is None else codec.replay(tu, c)
        rd = common.replay_dir(rep.prop, dict(key=key, c=c))
        (rd / "counterexample.json").write_text(__import__("json").dumps(dict(type=t.full_name, options=on, run=what, **c, replay=how), indent=1, default=str))
        inp = c.get("inputs") or {}
        n = c.get("bufsize", c.get("L", 0))
        if on == "py":
            from checks import py_common
            py_common.write_replay(rd, rep.tier, t, c)
            rep.counterexample(f"py:{t.short_name}:{c['fn']}:{c['kind']}", f"[py] {t.full_name} {c['fn']} ({what}): {c['what']} "
                               f"{ {k: c[k] for k in ('shape', 'values', 'buf', 'L') if k in c} } :: {how[:240]}", str(rd), ok)
            continue
        (rd / "replay.sh").write_text("#!/bin/bash\n# regenerates the header from /repo's current nunavut and runs the counterexample natively (ASan+UBSan)\n"
                                      f"cd /verif && PYTHONPATH=/verif .venv/bin/python -m checks.codec_common --replay {rep.tier} '{on}' {t.full_name} {c['fn']} {n} "
                                      f"{(inp.get('obj') if c['fn'] == 'ser' else inp.get('dst')) or '-'} {inp.get('buf') or '-'}\n")
        os.chmod(rd / "replay.sh", 0o755)
        fkey = f"{t.short_name}:{c['fn']}:{c['kind']}"
        rep.counterexample(fkey, f"[{on}] {t.full_name} {c['fn']} ({what}): {c['what']} inputs={inp} :: {how[:200]}", str(rd), ok)


def replay_cli(argv: typing.List[str]) -> int:
    tier, on, full, fn, n, objhex, bufhex = argv
    with common.scratch("nvrp_") as d:
        types, _ = prepare(tier, d, [on])
        t = [x for x in types if x.full_name == full][0]
        tu = unit_for(t, on, "B")
        rc, out, raw = codec.native_run(tu, fn, int(n), "" if objhex == "-" else objhex, "" if bufhex == "-" else bufhex, sanitize=True)
        print(raw)
        return 0 if rc == 0 else 11


if __name__ == "__main__":
    if len(sys.argv) > 1 and sys.argv[1] == "--replay":
        sys.exit(replay_cli(sys.argv[2:]))
