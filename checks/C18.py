"""C18 -- generated Python data objects validate (scalar and union clauses; E2 over freshly generated classes)."""
import sys
from lib import common
from llsym import build
from xh.runner import Cond, run_conditions


def _py_work(a):
    from checks import py_common
    return py_common.work(a)


def _pysym_stage(rep, tier):
    """E4: array-validation and built-in-container round trip clauses over the codec corpus (the real generated classes and support module)"""
    import pydsdl
    from checks import codec_common as cc, py_common
    from llsym import corpus
    with common.scratch("nvc18p_") as d:
        es = cc.corpus_entries(tier)
        ns = corpus.write(d / "dsdl", es)
        types = pydsdl.read_namespace(str(ns), [], allow_unregulated_fixed_port_id=True)
        flat = []
        for t in types:
            flat += [t.request_type, t.response_type] if isinstance(t, pydsdl.ServiceType) else [t]
        cc._CTX.update(feats={n.split(".")[-1]: f for n, _, f in es})
        try:
            py_common.generate(d, ns)
        except Exception as e:
            rep.unknown("py:generate", f"nnvg failed: {str(e)[-300:]}")
            return
        py_common.TYPES[:] = flat
        tasks = [(k, i, tier) for i in range(len(flat)) for k in ("builtin", "arrayval")]
        for res in common.pmap(_py_work, tasks):
            for ti, on, what, lg, tu, wall in res:
                cc.record(rep, flat[ti], on, what, lg, tu, wall, replayer=py_common.replayer(flat[ti]))
        py_common.cosim(rep, flat, per_type=1)
        rep.bounds["pysym_types"] = len(flat)
        # "the type model embedded in each class equals the source DSDL model": GROUND evaluation (no symbolic variable), real numpy/pickle
        from checks import C05
        C05._python_metadata(rep, d, ("_MODEL_", "str(_MODEL_)", "get_class"), include=True, prop="C18")


def main(tier: str) -> int:
    rep = common.Report("C18", tier, "other")
    rep.functions = ["generated pt.S_1_0: __init__, property setters a, b, c, d, t, h (float16), g (float32)", "generated pt.U_1_0: __init__, property setters (union option switching)"]
    with common.scratch("nvc18_") as d:
        try:
            build.nnvg("py", d / "py", common.VERIF / "data" / "ns3" / "pt")
        except Exception as e:
            rep.unknown("generate", f"nnvg failed: {str(e)[-300:]}")
            return rep.write()
        T = 300 if tier == "quick" else 1200
        conds = []
        for f in ("a", "b", "c", "d", "t"):
            P = dict(C18_PKG=str(d / "py"), C18_FIELD=f)
            conds.append(Cond("h_C18", "setter_validates", T, 60, P))
            conds.append(Cond("h_C18", "constructor_validates", T, 60, P))
        P = dict(C18_PKG=str(d / "py"))
        conds.append(Cond("h_C18", "union_holds_exactly_one", T, 60, P))
        conds.append(Cond("h_C18", "union_assignment_switches_option", T, 60, P))
        conds.append(Cond("h_C18", "float_setter_validates", T, 60, P))
        run_conditions(rep, conds)
    _b = dict(rep.bounds)
    _pysym_stage(rep, tier)
    _b.update(rep.bounds)
    rep.bounds = dict(_b, fields="uint8, int12, uint3, int64, truncated uint17", values="windows of +-3 around both range bounds and around 0",
                      union="every None/non-None pattern of the three constructor arguments with boundary values; assignment after each initial option")
    rep.assumptions = ["windows around the bounds: the ValueError message formats the value and CrossHair then enumerates each out-of-range integer (wide ranges not confirmable)"]
    rep.not_covered = ["scalar floats beyond a finite list of 23 boundary / non-finite candidates for float16 and float32 fields (numpy C code realises symbolic values)",
                       "_MODEL_ equality with the source DSDL model is a GROUND evaluation (unpickled model == pydsdl's model of the same definitions, "
                       "get_class(get_model(cls)) is cls), not a solver verdict",
                       "built-in round trip of objects holding a non-empty string-like (uint8[<=N]) array; NaN payloads; array elements given in a type other "
                       "than the field's own numpy dtype or a list of such scalars",
                       "scalar clauses: types beyond pt.S.1.0 / pt.U.1.0; array and round-trip clauses: types outside the codec corpus"]
    from checks import py_common
    rep.assumptions += py_common.ASSUMPTIONS
    rep.functions += ["array clause (pysym): constructors and property setters of every array field of the codec corpus types",
                      "built-in round trip (pysym): nunavut_support.to_builtin / _to_builtin_impl / update_from_builtin / get_attribute / set_attribute / get_class "
                      "followed by <T>._serialize_ of both objects"]
    rep.extra["explanation"] = "CrossHair/z3 over the generated setters/constructors with symbolic candidate values"
    rep.extra["trusted_base"] = ["crosshair-tool 0.0.110", "z3", "CPython 3.12", "numpy (import only)"]
    return rep.write()


if __name__ == "__main__":
    sys.exit(main(sys.argv[1] if len(sys.argv) > 1 else "quick"))
