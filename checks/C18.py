"""C18 -- generated Python data objects validate (scalar and union clauses; E2 over freshly generated classes)."""
import sys
from lib import common
from llsym import build
from xh.runner import Cond, run_conditions


def main(tier: str) -> int:
    rep = common.Report("C18", tier, "other")
    rep.functions = ["generated pt.S_1_0: __init__, property setters a, b, c, d, t, h (float16), g (float32)", "generated pt.U_1_0: __init__, property setters (union option switching)"]
    with common.scratch("nvc18_") as d:
        try:
            build.nnvg("py", d / "py", common.VERIF / "data" / "ns3" / "pt")
        except Exception as e:
            rep.unknown("generate", f"nnvg failed: {str(e)[-300:]}")
            return rep.write()
        T = 300 if tier == "quick" else 1200
        conds = []
        for f in ("a", "b", "c", "d", "t"):
            P = dict(C18_PKG=str(d / "py"), C18_FIELD=f)
            conds.append(Cond("h_C18", "setter_validates", T, 60, P))
            conds.append(Cond("h_C18", "constructor_validates", T, 60, P))
        P = dict(C18_PKG=str(d / "py"))
        conds.append(Cond("h_C18", "union_holds_exactly_one", T, 60, P))
        conds.append(Cond("h_C18", "union_assignment_switches_option", T, 60, P))
        conds.append(Cond("h_C18", "float_setter_validates", T, 60, P))
        run_conditions(rep, conds)
    rep.bounds = dict(fields="uint8, int12, uint3, int64, truncated uint17", values="windows of +-3 around both range bounds and around 0",
                      union="every None/non-None pattern of the three constructor arguments with boundary values; assignment after each initial option")
    rep.assumptions = ["windows around the bounds: the ValueError message formats the value and CrossHair then enumerates each out-of-range integer (wide ranges not confirmable)"]
    rep.not_covered = ["arrays; floats beyond a finite list of 23 boundary / non-finite candidates for float16 and float32 fields (numpy C code realises symbolic values)", "_MODEL_ equality with the source DSDL model and the to_builtin round trip "
                       "(no symbolic variable; pickle/numpy) -- these clauses are NOT decided", "types beyond pt.S.1.0 / pt.U.1.0"]
    rep.extra["explanation"] = "CrossHair/z3 over the generated setters/constructors with symbolic candidate values"
    rep.extra["trusted_base"] = ["crosshair-tool 0.0.110", "z3", "CPython 3.12", "numpy (import only)"]
    return rep.write()


if __name__ == "__main__":
    sys.exit(main(sys.argv[1] if len(sys.argv) > 1 else "quick"))
