"""C19 -- bundled template engine: sentence 2 (auto-indent markers, assert and use-query tags) by E2; one E3 lemma for sentence 1."""
import re
import sys
import time

import z3

from lib import common
from xh.runner import Cond, run_conditions

PLACEMENTS = ("expr4", "exprtab", "expr_mixed", "block_if", "block_for", "block_include", "filter", "first_line", "mid_expr", "mid_include", "mid_after_tag")


ORDINARY = ("expr", "if", "for", "set_macro", "call", "filter_block", "indent", "indent_block", "strings", "strings2", "strings3", "include", "ws_control", "comment_raw", "join_default",
            "lineprefix_plain")


def marker_lemma(rep: common.Report) -> None:
    """Each alternative Nunavut added to the lexer's root 'begin' patterns, read from the LIVE lexer object, can only match text that
    contains the literal marker.  (The rest of sentence 1 -- equivalence with upstream Jinja2 on ordinary templates -- is outside reach.)"""
    from nunavut.jinja.jinja2 import Environment
    from nunavut.jinja.jinja2.lexer import get_lexer
    env = Environment()
    lx = get_lexer(env)
    root_pat = lx.rules["root"][0][0].pattern
    found = 0
    for start in (env.block_start_string, env.variable_start_string, env.comment_start_string):
        alt = r"[ \t]*" + re.escape(start) + r"\*"
        n = root_pat.count(alt)
        if n == 0:
            continue
        found += n
        s = z3.String("s")
        R = z3.Concat(z3.Star(z3.Union(z3.Re(" "), z3.Re("\t"))), z3.Re(start), z3.Re("*"))
        sol = z3.Solver()
        sol.set("timeout", 60000)
        # whatever text the added alternative itself matches contains the literal marker (the alternative is: blanks, start string, '*')
        # stated as a regular-language inclusion (z3's sequence solver answers 'unknown' on the str.contains form)
        anyc = z3.Full(z3.ReSort(z3.StringSort()))
        sol.add(z3.InRe(s, R))
        sol.add(z3.Not(z3.InRe(s, z3.Concat(anyc, z3.Re(start + "*"), anyc))))
        t0 = time.time()
        r = sol.check()
        rep.solver_s += time.time() - t0
        if r == z3.unsat:
            rep.discharged(1, key=f"lemma:marker:{start}", sample=dict(lemma=f"text matched by the added alternative {alt!r} contains the literal {start + '*'!r}", verdict="unsat"))
        elif r == z3.sat:
            rep.counterexample("marker-lemma", f"alternative {alt!r} matches {sol.model()[s]} without the marker", None, False)
        else:
            rep.unknown(f"lemma:marker:{start}", "solver unknown")
    # every '*'-alternative in the root pattern must be of the recognised shape, otherwise the lemma does not speak about it
    stars = len(re.findall(r"\\\*", root_pat))
    if found == 0 or stars != found:
        rep.unknown("lemma:marker", f"root lexer pattern has {stars} marker alternatives, {found} of the recognised shape: the lexer changed, lemma not applicable as written")


def main(tier: str) -> int:
    rep = common.Report("C19", tier, "other")
    rep.functions = ["bundled nunavut.jinja.jinja2: Lexer (root begin patterns), Parser.subparse (auto-indent), filters.do_lineprefix, compiler/runtime as exercised",
                     "nunavut.jinja.extensions.JinjaAssert.parse / _do_assert", "nunavut.jinja.extensions.UseQuery.parse / _use_query / _use_nquery / _use_query_common"]
    M = "h_C19"
    n = "3" if tier == "quick" else "4"
    T = 1200 if tier == "quick" else 2400    # upper bound only; measured walls are in evidence (condition_walls_s)
    conds = [Cond(M, "marker_prefixes_every_nonempty_line", T, 120, dict(C19_T=p, C19_LEN=n)) for p in PLACEMENTS]
    for o in ORDINARY:
        conds.append(Cond(M, "ordinary_template_renders_as_upstream", T, 120, dict(C19_ORD=o, C19_LEN=("2" if tier == "quick" else "3"))))
    # environment history (lexer caches): native enumeration only -- two engines compiling templates under tracing cost > 10 min per path
    conds.append(Cond(M, "overlay_environment_renders_as_upstream", T, 120, expect="native"))
    conds.append(Cond(M, "assert_tag_is_a_conditional", T, 60))
    conds.append(Cond(M, "use_query_tags_are_conditionals", T, 60))
    run_conditions(rep, conds)
    marker_lemma(rep)
    rep.bounds = dict(ordinary_templates=list(ORDINARY), ordinary_context="x: <= 2 (thorough 3) chars over {a,space,LF,CR}; n: 0..3; flag: bool", indented_text=f"<= {n} characters over {{a, space, LF, CR}}", placements=list(PLACEMENTS), assert_values="-2..3 (truthiness and a comparison)",
                      use_queries="all 8 valuations of three queries, ifuses/elifuses/elifnuses/else and the negated form")
    rep.assumptions = ["marker placements are a fixed list (expression, tab/space/mixed prefixes, if, for, include, filter chain, first line)",
                       "lines as str.splitlines defines them: the prefix filter normalises terminators by design"]
    rep.not_covered = ["SENTENCE 1 in general (every template of the common language): outside reach -- two complete template engines cannot be encoded. Decided "
                       "instead: a FIXED LIST of 14 ordinary templates (expressions, if/for/set/macro/call/filter blocks, include, whitespace control, comments, "
                       "raw, the stock string filters) renders identically in the bundled engine and in the installed upstream Jinja2 3.1.x for every context "
                       "value within the bound; plus the marker-alternative lemma",
                       "texts longer than the bound; other marker placements"]
    rep.extra["explanation"] = ("CrossHair/z3 through the real bundled engine with symbolic context values: marker render == plain value with each non-empty line "
                                "prefixed; assert raises iff falsy; ifuses/ifnuses chains render exactly as the corresponding if/elif/else; plus one z3 regex lemma")
    rep.extra["trusted_base"] = ["crosshair-tool 0.0.110", "z3 (sequence/regex theory for the lemma)", "CPython 3.12"]
    return rep.write()


if __name__ == "__main__":
    sys.exit(main(sys.argv[1] if len(sys.argv) > 1 else "quick"))
