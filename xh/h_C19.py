"""C19 harness (sentence 2): auto-indent markers render as the plain construct with every non-empty line prefixed by the whitespace
preceding the marker; Nunavut's assert and use-query tags behave as ordinary conditionals over their argument.

Real code: the bundled Jinja2 (lexer/parser/compiler/runtime with Nunavut's modifications: Parser.subparse auto-indent, do_lineprefix),
nunavut.jinja.extensions.JinjaAssert / UseQuery.  Templates are a fixed list of marker placements; the context values are symbolic.
"""
import os
import typing

from nunavut.jinja.extensions import JinjaAssert, UseQuery
from nunavut.jinja.jinja2 import DictLoader, Environment
from nunavut.jinja.jinja2.exceptions import TemplateAssertionError

LF = chr(10)
CR = chr(13)
SIG = "a " + LF + CR
MAXLEN = int(os.environ.get("C19_LEN", "3"))
TAB = chr(9)
_TEMPLATES = {
    # name: (template with marker, the same template without the marker, prefix)
    "expr4": ("X" + LF + "    {{* x }}" + LF + "Y" + LF, "    "),
    "exprtab": ("X" + LF + TAB + "{{* x }}" + LF + "Y" + LF, TAB),
    "expr_mixed": ("X" + LF + " " + TAB + " {{* x }}" + LF + "Y" + LF, " " + TAB + " "),
    "block_if": ("X" + LF + "  {%* if True %}{{ x }}{% endif %}" + LF + "Y" + LF, "  "),
    "block_for": ("X" + LF + "   {%* for i in range(1) %}{{ x }}{% endfor %}" + LF + "Y" + LF, "   "),
    "block_include": ("X" + LF + "  {%* include 'inc' %}" + LF + "Y" + LF, "  "),
    "filter": ("X" + LF + "  {{* x | upper | lower }}" + LF + "Y" + LF, "  "),
    "first_line": ("  {{* x }}" + LF + "Y" + LF, "  "),
    # markers in the middle of a line: the whitespace between the preceding text and the marker is the prefix
    "mid_expr": ("X" + LF + "foo  {{* x }}" + LF + "Y" + LF, "  "),
    "mid_include": ("X" + LF + "key:" + TAB + "{%* include 'inc' %}" + LF + "Y" + LF, TAB),
    "mid_after_tag": ("X" + LF + "{% if True %}   {{* x }}{% endif %}" + LF + "Y" + LF, "   ", "X" + LF),
}
_src = {k: v[0] for k, v in _TEMPLATES.items()}
_src["inc"] = "{{ x }}"
_src["assert"] = "A{% assert e %}B"
_src["assert_expr"] = "A{% assert e > 1 %}B"
_src["uses"] = "{% ifuses 'q1' %}A{% elifuses 'q2' %}B{% elifnuses 'q3' %}C{% else %}D{% endifuses %}"
_src["nuses"] = "{% ifnuses 'q1' %}A{% elifnuses 'q2' %}B{% elifuses 'q3' %}C{% else %}D{% endifnuses %}"
_src["plain_if"] = "{% if q1 %}A{% elif q2 %}B{% elif not q3 %}C{% else %}D{% endif %}"
_env = Environment(loader=DictLoader(_src), extensions=[JinjaAssert, UseQuery], keep_trailing_newline=True)


class _Q:
    q1: typing.Any = False
    q2: typing.Any = False
    q3: typing.Any = False


class _Queries:
    @staticmethod
    def q1() -> bool:
        return _Q.q1

    @staticmethod
    def q2() -> bool:
        return _Q.q2

    @staticmethod
    def q3() -> bool:
        return _Q.q3


class _Lang:
    name = "c"


_env.target_language_uses_queries = _Queries()     # type: ignore
_env.target_language = _Lang()                     # type: ignore
_T = {k: _env.get_template(k) for k in _src}
WHICH = os.environ.get("C19_T", "expr4")


def _expected(x: str, prefix: str) -> str:
    """the plain construct with every non-empty line prefixed (lines as str.splitlines defines them: the filter normalises terminators)"""
    return LF.join((prefix + l if l else l) for l in x.splitlines())


def marker_prefixes_every_nonempty_line(x: str) -> bool:
    """
    pre: len(x) <= MAXLEN and all(c in SIG for c in x)
    post: _
    """
    tmpl, prefix = _TEMPLATES[WHICH][0], _TEMPLATES[WHICH][1]
    # the rendered text before the construct: the template text before the prefix (given explicitly where that text contains tags)
    head = _TEMPLATES[WHICH][2] if len(_TEMPLATES[WHICH]) > 2 else tmpl.split(prefix + "{", 1)[0]
    tail = LF + "Y" + LF
    out = _T[WHICH].render(x=x)
    if not (out.startswith(head) and out.endswith(tail) and len(out) >= len(head) + len(tail)):
        return False
    body = out[len(head):len(out) - len(tail)]
    want = x.lower() if WHICH == "filter" else x
    return body == _expected(want, prefix)


def assert_tag_is_a_conditional(e: int) -> bool:
    """
    pre: -2 <= e <= 3
    post: _
    """
    for name, cond in (("assert", bool(e)), ("assert_expr", e > 1)):
        try:
            out = _T[name].render(e=e)
            raised = False
        except TemplateAssertionError:
            raised = True
            out = None
        if raised != (not cond) or (not raised and out != "AB"):
            return False
    return True


def use_query_tags_are_conditionals(q1: bool, q2: bool, q3: bool) -> bool:
    """
    post: _
    """
    _Q.q1, _Q.q2, _Q.q3 = q1, q2, q3
    plain = _T["plain_if"].render(q1=q1, q2=q2, q3=q3)
    nplain = _T["plain_if"].render(q1=not q1, q2=not q2, q3=not q3)
    return _T["uses"].render() == plain and _T["nuses"].render() == nplain


# ------------------------------------------------------------------------------------------------ sentence 1, partial
# Ordinary templates (no auto-indent marker) from a fixed list covering the stable core -- expressions, if/for/set/macro/call/filter
# blocks, include, whitespace control, comments, raw, and the stock string filters Nunavut's templates rely on -- rendered by the
# bundled engine and by the upstream Jinja2 installed next to it, over SYMBOLIC context values.  This decides sentence 1 for this list
# and these bounds only (the general statement is outside reach, see DESIGN.md).
try:
    import jinja2 as _up
except ImportError:          # pragma: no cover
    _up = None
_ORD = {
    "expr": "[{{ x }}]",
    "if": "{% if flag %}{{ x }}{% elif n > 1 %}n{% else %}-{% endif %}",
    "for": "{% for c in x %}({{ loop.index }}{{ c }}){% else %}empty{% endfor %}",
    "set_macro": "{% set y = x %}{% macro m(a, b='d') %}<{{ a }}{{ b }}>{% endmacro %}{{ m(y) }}{{ m(x, n) }}",
    "call": "{% macro w() %}[{{ caller() }}]{% endmacro %}{% call w() %}{{ x }}{% endcall %}",
    "filter_block": "{% filter upper %}{{ x }}a{% endfilter %}",
    "indent": "[{{ x | indent(n) }}][{{ x | indent(n, true) }}][{{ x | indent(n, flag, true) }}]",
    "indent_block": "{% filter indent(2, true) %}" + LF + "{{ x }}" + LF + "{% endfilter %}",
    # (one template per group of string filters: as a single template the condition took 860 s, the groups run in parallel)
    "strings": "{{ x | upper }}|{{ x | lower }}|{{ x | trim }}",
    "strings2": "{{ x | length }}|{{ x | replace('a', 'bb') }}",
    "strings3": "{{ x | center(n) }}|{{ x | capitalize }}",
    "include": "<{% include 'ord_inc' %}>",
    "ws_control": "a  {%- if flag %}  {{ x }}  {%- endif -%}  b",
    "comment_raw": "{# c #}{% raw %}{{ x }}{% endraw %}{{ x }}",
    "join_default": "{{ x | list | join(',') }}|{{ none_v | default(x) }}|{{ (x ~ n) }}",
    "lineprefix_plain": "{{ x }}" + LF + "  {{ x }}",
}
_ORD_ALL = dict(_ORD, ord_inc="i{{ x }}i")
_BUNDLED = Environment(loader=DictLoader(_ORD_ALL), keep_trailing_newline=True)
_UPSTREAM = _up.Environment(loader=_up.DictLoader(_ORD_ALL), keep_trailing_newline=True) if _up else None
_TB = {k: _BUNDLED.get_template(k) for k in _ORD}
_TU = {k: _UPSTREAM.get_template(k) for k in _ORD} if _up else {}
ORD = os.environ.get("C19_ORD", "expr")


def ordinary_template_renders_as_upstream(x: str, n: int, flag: bool) -> bool:
    """
    pre: len(x) <= MAXLEN and all(c in SIG for c in x) and 0 <= n <= 3
    post: _
    """
    ctx = dict(x=x, n=n, flag=flag, none_v=None)
    try:
        a = _TB[ORD].render(**ctx)
        ea = None
    except Exception as e:      # same output, or failure where upstream fails
        a, ea = None, type(e).__name__
    try:
        b = _TU[ORD].render(**ctx)
        eb = None
    except Exception as e:
        b, eb = None, type(e).__name__
    return a == b and (ea is None) == (eb is None)


# environment HISTORY: an overlay environment (other lexer settings) derived from a parent that has / has not compiled a template before
_OV = [
    (dict(trim_blocks=True, lstrip_blocks=True), "  {% if flag %}" + LF + "  {{ x }}" + LF + "  {% endif %}" + LF + "z"),
    (dict(variable_start_string="${", variable_end_string="}"), "[${ x }][{{ x }}]"),
    (dict(block_start_string="<%", block_end_string="%>"), "<% if flag %>{{ x }}<% endif %>{% if flag %}"),
    (dict(line_statement_prefix="%%"), "%% if flag" + LF + "{{ x }}" + LF + "%% endif" + LF),
]


OV_WHICH = int(os.environ.get("C19_OVW", "-1"))
# The subject is environment HISTORY (lexer caches): building environments and compiling templates of two engines under tracing costs more than
# ten minutes per path, so this condition is registered as native-only: the whole finite space below is executed with plain CPython (a concrete
# run, labelled as such in the evidence)
UNDER_XH = os.environ.get("VERIF_UNDER_CROSSHAIR") == "1"


def _overlay_run(mod: typing.Any, x: str, flag: bool, which: int, parent_used_first: bool) -> typing.Tuple[typing.Optional[str], typing.Optional[str]]:
    kw, src = _OV[which]
    try:
        parent = mod.Environment(loader=mod.DictLoader(_ORD_ALL), keep_trailing_newline=True)
        if parent_used_first:
            parent.get_template("expr").render(x=x)
        ov = parent.overlay(**kw)
        out = ov.from_string(src).render(x=x, flag=flag)
        again = parent.get_template("if").render(x=x, flag=flag, n=0)          # and the parent still lexes with ITS settings
        return out + "|" + again, None
    except Exception as e:
        return None, type(e).__name__


def overlay_environment_renders_as_upstream(x: str, flag: bool, which: int, parent_used_first: bool) -> bool:
    """
    pre: len(x) <= 1 and all(c in SIG for c in x) and 0 <= which < len(_OV) and (OV_WHICH < 0 or which == OV_WHICH)
    pre: (not UNDER_XH) or (x == "a" and flag)
    post: _
    """
    import nunavut.jinja.jinja2 as bundled
    a, ea = _overlay_run(bundled, x, flag, which, parent_used_first)
    b, eb = _overlay_run(_up, x, flag, which, parent_used_first)
    return a == b and (ea is None) == (eb is None)


NATIVE_SMOKE = {"overlay_environment_renders_as_upstream": [(x, f, w, u) for x in ("", "a", " ", LF) for f in (False, True) for w in range(len(_OV)) for u in (False, True)
                                                            if OV_WHICH < 0 or w == OV_WHICH]}
