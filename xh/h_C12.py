"""C12 harness: one inductive step of regeneration from an ARBITRARY directory state (covers histories of any length).

Real code: CodeGenerator._handle_overwrite, CodeGenerator._generate_code, SupportGenerator._copy_header,
SupportGenerator._copy_header_using_line_pps, SetFileMode.__call__, ArgparseRunner._build_post_processor_list_from_args.
Stub: FakeFS (POSIX owner semantics for a non-root user, umask 022) -- see xh/fakefs.py.
"""
import argparse
import os
import typing

import nunavut.jinja
from nunavut.cli.runners import ArgparseRunner
from nunavut.jinja import DSDLCodeGenerator, SupportGenerator
from xh.fakefs import FakeFS, FakePath

FULL = os.environ.get("C12_FULL", "0") == "1"
_CUR: typing.List[FakeFS] = [FakeFS()]


def _open(name, mode="r", encoding=None, **kw):
    return _CUR[0].open(name, mode, encoding, **kw)


class _Shutil:
    @staticmethod
    def copy(src: str, dst: str) -> None:
        """shutil.copy = copyfile + copymode"""
        fs = _CUR[0]
        content, mode = fs.files[src]
        with fs.open(dst, "w") as f:
            f.write(content)
        fs.files[dst][1] = mode


nunavut.jinja.open = _open          # type: ignore
nunavut.jinja.shutil = _Shutil      # type: ignore


class _Env:
    now_utc = None


def mode_ok(mode: int) -> bool:
    if not 0 <= mode <= 0o777:
        return False
    return FULL or (mode & 0o077) in (0, 0o44, 0o22, 0o77)


def _pps(file_mode: int, line_pp: int):
    """post-processor list exactly as the CLI builds it"""
    r = object.__new__(ArgparseRunner)
    r._args = argparse.Namespace(pp_trim_trailing_whitespace=(line_pp == 1), pp_max_emptylines=(1 if line_pp == 2 else None),
                                 pp_run_program=None, file_mode=file_mode)
    return r._build_post_processor_list_from_args()


NEW = "new \ncontent\n"


def _expected(line_pp: int) -> str:
    return "new\ncontent\n" if line_pp == 1 else NEW


OLD0 = "OLD CONTENT THAT IS LONGER THAN THE NEW ONE\n"


def _old(kind: int, line_pp: int) -> str:
    """content an earlier run (or a checkout, an editor, another tool version) may have left at the output path: unrelated text; exactly what
    this run is about to produce; the same lines with CRLF or lone-CR terminators (a shortcut that compares before writing must compare bytes)"""
    e = _expected(line_pp)
    return (OLD0, e, e.replace("\n", "\r\n"), e.replace("\n", "\r"))[kind]


def step_template(exists: bool, mode: int, file_mode: int, allow_overwrite: bool, line_pp: int, old_kind: int) -> bool:
    """
    pre: mode_ok(mode) and 0 <= file_mode <= 0o777 and 0 <= line_pp <= 2 and 0 <= old_kind <= 3
    post: _
    """
    fs = FakeFS()
    _CUR[0] = fs
    OLD = _old(old_kind, line_pp)
    if exists:
        fs.put("out/x.h", OLD, mode)
    fs.put("out/foreign", "F", 0o400)
    g = object.__new__(DSDLCodeGenerator)
    g._env = _Env()
    g._post_processors = _pps(file_mode, line_pp)
    try:
        g._generate_code(FakePath(fs, "out/x.h"), None, iter(["new ", "\ncont", "ent\n"]), allow_overwrite)
        raised = False
    except PermissionError:
        raised = True
    foreign_ok = fs.files["out/foreign"] == ["F", 0o400]
    if exists and not allow_overwrite:
        # never changes content or mode of a file that existed before, and reports the conflict
        return raised and fs.files["out/x.h"] == [OLD, mode] and foreign_ok
    # byte-identical to a run into an empty directory, with the requested permission bits -- also over read-only files
    return (not raised) and fs.files["out/x.h"] == [_expected(line_pp), file_mode] and foreign_ok and len(fs.files) == 2


def step_copy(exists: bool, mode: int, file_mode: int, allow_overwrite: bool, line_pp: int, old_kind: int) -> bool:
    """
    pre: mode_ok(mode) and 0 <= file_mode <= 0o777 and 0 <= line_pp <= 2 and 0 <= old_kind <= 3
    post: _
    """
    fs = FakeFS()
    _CUR[0] = fs
    OLD = _old(old_kind, line_pp)
    fs.put("res/x.h", NEW, 0o444)          # packaged resources are typically read-only
    if exists:
        fs.put("out/x.h", OLD, mode)
    fs.put("out/foreign", "F", 0o400)
    g = object.__new__(SupportGenerator)
    pps = _pps(file_mode, line_pp)
    line_pps = [p for p in pps if isinstance(p, nunavut._postprocessors.LinePostProcessor)]
    file_pps = [p for p in pps if isinstance(p, nunavut._postprocessors.FilePostProcessor)]
    try:
        g._copy_header(FakePath(fs, "res/x.h"), FakePath(fs, "out/x.h"), False, allow_overwrite, line_pps, file_pps)
        raised = False
    except PermissionError:
        raised = True
    untouched = fs.files["out/foreign"] == ["F", 0o400] and fs.files["res/x.h"] == [NEW, 0o444]
    if exists and not allow_overwrite:
        return raised and fs.files["out/x.h"] == [OLD, mode] and untouched
    return (not raised) and fs.files["out/x.h"] == [_expected(line_pp), file_mode] and untouched and len(fs.files) == 3


def two_runs(mode1: int, mode2: int, allow2: bool, same_text: bool) -> bool:
    """
    pre: 0 <= mode1 <= 0o777 and 0 <= mode2 <= 0o777
    pre: FULL or ((mode1 & 0o077) in (0, 0o44) and (mode2 & 0o077) in (0, 0o44))
    post: _
    """
    # explicit two-step history through the same real code (redundant with the inductive step; kept as its cross-check):
    # run 1 with --file-mode mode1 into an empty directory, run 2 with mode2 and (no-)overwrite
    fs = FakeFS()
    _CUR[0] = fs
    g = object.__new__(DSDLCodeGenerator)
    g._env = _Env()
    g._post_processors = _pps(mode1, 0)
    g._generate_code(FakePath(fs, "out/x.h"), None, iter(["v1\n"]), True)
    if fs.files["out/x.h"] != ["v1\n", mode1]:
        return False
    g._post_processors = _pps(mode2, 0)
    try:
        g._generate_code(FakePath(fs, "out/x.h"), None, iter(["v1\n" if same_text else "v2\n"]), allow2)
        raised = False
    except PermissionError:
        raised = True
    if allow2:
        return (not raised) and fs.files["out/x.h"] == ["v1\n" if same_text else "v2\n", mode2]
    return raised and fs.files["out/x.h"] == ["v1\n", mode1]
