"""A `set` whose iteration order is a (symbolic) rotation / reversal of insertion order: the model of PYTHONHASHSEED-dependent iteration.
Injected as the module-global name `set` into nunavut modules by harnesses (shadows the builtin only where code calls set(...) by name)."""
import typing


class Order:
    rot: typing.Any = 0
    rev: typing.Any = False


class PermSet(set):
    def __init__(self, it: typing.Iterable = ()) -> None:
        super().__init__()
        self._order: typing.List[typing.Any] = []
        for x in it:
            self.add(x)

    def add(self, x: typing.Any) -> None:
        if not set.__contains__(self, x):
            set.add(self, x)
            self._order.append(x)

    def __iter__(self) -> typing.Iterator:
        n = len(self._order)
        if n == 0:
            return iter(())
        k = Order.rot % n
        seq = self._order[k:] + self._order[:k]
        if Order.rev:
            seq = seq[::-1]
        return iter(seq)


def inject(*modules: typing.Any) -> None:
    for m in modules:
        m.set = PermSet
