"""In-memory file system used by E2 harnesses (CrossHair blocks real side effects, and symbolic state must live in Python).

Model (stated in DESIGN.md, C12): POSIX semantics for a non-root owner:
  * open(p, 'w') on an existing file raises PermissionError iff the owner-write bit (0o200) is clear; otherwise truncates
    and keeps the mode; on a missing file creates it with mode 0o644 (umask 022);
  * chmod/stat/exists/mkdir as documented; every mutation is appended to `log`.
Only pure-Python objects (no io.StringIO subclasses: C-level file objects reject CrossHair's symbolic str).
"""
from __future__ import annotations

import typing


class FakeFS:
    def __init__(self) -> None:
        self.files: typing.Dict[str, typing.List[typing.Any]] = {}   # name -> [content, mode]
        self.log: typing.List[typing.Tuple[str, str]] = []

    def snapshot(self) -> typing.Dict[str, typing.Tuple[typing.Any, typing.Any]]:
        return {k: (v[0], v[1]) for k, v in self.files.items()}

    def put(self, name: str, content: str, mode: int) -> None:
        self.files[name] = [content, mode]

    def open(self, name: typing.Any, mode: str = "r", encoding: typing.Optional[str] = None,
             opener: typing.Optional[typing.Callable] = None, **_kw: typing.Any) -> typing.Any:
        name = str(name)
        if mode == "w":
            import os
            flags = os.O_WRONLY | os.O_CREAT | os.O_TRUNC
            if opener is not None:
                # io.open(..., opener=f) calls f(path, flags) which is expected to call os.open(); model that call
                rec: typing.Dict[str, int] = {}
                real = os.open

                def _fake_os_open(path: typing.Any, fl: int, mode: int = 0o777, **k: typing.Any) -> int:
                    rec["flags"] = fl
                    return 1 << 20

                os.open = _fake_os_open  # type: ignore
                try:
                    opener(name, flags)
                finally:
                    os.open = real
                flags = rec.get("flags", flags)
            old = ""
            if name in self.files:
                if flags & os.O_EXCL:
                    raise FileExistsError(name)
                if not (self.files[name][1] & 0o200):
                    raise PermissionError(name)
                if not (flags & os.O_TRUNC):
                    old = self.files[name][0]
                self.files[name][0] = old
            else:
                if not (flags & os.O_CREAT):
                    raise FileNotFoundError(name)
                self.files[name] = ["", 0o644]
            self.log.append(("open-w", name))
            return _WFile(self, name, old)
        if mode not in ("r", "rt", "rb"):
            raise ValueError(f"FakeFS: unsupported open mode {mode!r}")
        if name not in self.files:
            raise FileNotFoundError(name)
        if not (self.files[name][1] & 0o400):
            raise PermissionError(name)
        raw = self.files[name][0]
        if mode == "rb":
            return _RFile(raw.encode("utf-8"))  # type: ignore
        # text mode: universal newlines unless newline='' (or an explicit terminator) is requested, as io.open documents
        return _RFile(raw if _kw.get("newline") is not None else raw.replace("\r\n", "\n").replace("\r", "\n"))


class _WFile:
    def __init__(self, fs: FakeFS, name: str, old: str = "") -> None:
        self.fs, self.name_, self.parts, self.old = fs, name, [], old   # type: ignore

    def write(self, x: str) -> None:
        self.parts.append(x)

    def close(self) -> None:
        new = "".join(self.parts)
        self.fs.files[self.name_][0] = new + self.old[len(new):]     # without O_TRUNC stale bytes past the new text survive

    def __enter__(self) -> "_WFile":
        return self

    def __exit__(self, *a: typing.Any) -> bool:
        self.close()
        return False


class _RFile:
    def __init__(self, text: str) -> None:
        self.text = text

    def read(self) -> str:
        return self.text

    def __enter__(self) -> "_RFile":
        return self

    def __exit__(self, *a: typing.Any) -> bool:
        return False

    def __iter__(self) -> typing.Iterator[str]:
        cur = ""
        for c in self.text.replace("\r\n", "\n").replace("\r", "\n"):
            cur += c
            if c == "\n":
                yield cur
                cur = ""
        if len(cur) > 0:
            yield cur


class _Stat:
    def __init__(self, m: int) -> None:
        self.st_mode = m


class FakePath:
    """Duck-typed pathlib.Path over a FakeFS (only what nunavut's generators call)."""

    def __init__(self, fs: FakeFS, name: str) -> None:
        self.fs, self.name_ = fs, name

    def __str__(self) -> str:
        return self.name_

    def __fspath__(self) -> str:
        return self.name_

    def __eq__(self, o: typing.Any) -> bool:
        return isinstance(o, FakePath) and o.name_ == self.name_

    def __hash__(self) -> int:
        return hash(self.name_)

    def __truediv__(self, other: typing.Any) -> "FakePath":
        return FakePath(self.fs, self.name_.rstrip("/") + "/" + str(other))

    @property
    def name(self) -> str:
        return self.name_.rsplit("/", 1)[-1]

    @property
    def suffix(self) -> str:
        n = self.name
        return n[n.rindex("."):] if "." in n[1:] else ""

    def with_suffix(self, suffix: str) -> "FakePath":
        base = self.name_[: len(self.name_) - len(self.suffix)] if self.suffix else self.name_
        return FakePath(self.fs, base + suffix)

    def read_text(self, encoding: typing.Optional[str] = None, errors: typing.Optional[str] = None, newline: typing.Optional[str] = None) -> str:
        """pathlib.Path.read_text: text mode, universal newlines (CRLF and CR become LF) unless a newline argument is given"""
        with self.fs.open(self.name_, "r", encoding, newline=newline) as f:
            return f.read()

    def read_bytes(self) -> bytes:
        with self.fs.open(self.name_, "rb") as f:
            return f.read()

    def write_text(self, data: str, encoding: typing.Optional[str] = None, errors: typing.Optional[str] = None, newline: typing.Optional[str] = None) -> int:
        with self.fs.open(self.name_, "w", encoding) as f:
            f.write(data)
        return len(data)

    def open(self, mode: str = "r", buffering: int = -1, encoding: typing.Optional[str] = None, errors: typing.Optional[str] = None,
             newline: typing.Optional[str] = None) -> typing.Any:
        return self.fs.open(self.name_, mode, encoding, newline=newline)

    def is_file(self) -> bool:
        return self.exists()

    def exists(self) -> bool:
        return self.name_ in self.fs.files

    def stat(self) -> _Stat:
        if self.name_ not in self.fs.files:
            raise FileNotFoundError(self.name_)
        return _Stat(self.fs.files[self.name_][1])

    def chmod(self, mode: int) -> None:
        if self.name_ not in self.fs.files:
            raise FileNotFoundError(self.name_)
        self.fs.files[self.name_][1] = mode
        self.fs.log.append(("chmod", self.name_))

    @property
    def parent(self) -> "_Dir":
        return _Dir(self.fs, self.name_.rsplit("/", 1)[0] if "/" in self.name_ else ".")


class _Dir:
    def __init__(self, fs: FakeFS, name: str) -> None:
        self.fs, self.name_ = fs, name

    def mkdir(self, parents: bool = False, exist_ok: bool = False) -> None:
        self.fs.log.append(("mkdir", self.name_))


def patch_pathlib(fs_ref: typing.List[FakeFS], root: str = "/out") -> None:
    """For pipeline harnesses that go through real pathlib.Path objects: route the mutating/inspecting calls nunavut's
    generators make (mkdir, chmod, exists, stat) to the FakeFS in fs_ref[0] for every path under `root` (the fake output
    directory); everything else (package resources, DSDL inputs) keeps using the real file system, read-only."""
    import pathlib

    real_mkdir, real_chmod, real_exists, real_stat = pathlib.Path.mkdir, pathlib.Path.chmod, pathlib.Path.exists, pathlib.Path.stat

    def under(p: typing.Any) -> bool:
        sp = str(p)
        return sp == root or sp.startswith(root + "/")

    def _mkdir(self: typing.Any, *a: typing.Any, **k: typing.Any) -> None:
        if not under(self):
            return real_mkdir(self, *a, **k)
        fs_ref[0].log.append(("mkdir", str(self)))

    def _chmod(self: typing.Any, mode: int, **k: typing.Any) -> None:
        if not under(self):
            return real_chmod(self, mode, **k)
        FakePath(fs_ref[0], str(self)).chmod(mode)

    def _exists(self: typing.Any, **k: typing.Any) -> bool:
        if not under(self):
            return real_exists(self, **k)
        return str(self) in fs_ref[0].files

    def _stat(self: typing.Any, **k: typing.Any) -> typing.Any:
        if not under(self):
            return real_stat(self, **k)
        return FakePath(fs_ref[0], str(self)).stat()

    pathlib.Path.mkdir = _mkdir      # type: ignore
    pathlib.Path.chmod = _chmod      # type: ignore
    pathlib.Path.exists = _exists    # type: ignore
    pathlib.Path.stat = _stat        # type: ignore
