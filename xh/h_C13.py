"""C13 harness: configuration merge precedence, deep union, no aliasing, getters, C++ std shorthands, builder isolation.

Real code: nunavut._utilities.deep_update / DefaultValue.assign_to_if_not_default / no_default_value,
nunavut.lang._config.LanguageConfig.update/update_section/_get_config_value_raw,
nunavut.lang.cpp.Language._validate_language_options, nunavut.lang.LanguageContextBuilder.
Oracle: `ref_merge`, a direct statement of the documented precedence over immutable snapshots.
"""
import copy
import os
from typing import Tuple

from nunavut._utilities import DefaultValue, deep_update
from nunavut.lang import Language, LanguageClassLoader, LanguageContextBuilder
from nunavut.lang._config import LanguageConfig

Sel = Tuple[int, int, int, int]     # (kind, leaf value, sub-kind, sub-leaf)


def mk(kind: int, v: int, sk: int, sv: int):
    """kind: 1 explicit int, 2 DefaultValue(int), 3 nested map; sub-kind for the nested map: 0 empty, 1 explicit, 2 default, 3 map"""
    if kind == 1:
        return v
    if kind == 2:
        return DefaultValue(v)
    d = {}
    if sk == 1:
        d["x"] = sv
    elif sk == 2:
        d["x"] = DefaultValue(sv)
    elif sk == 3:
        d["x"] = {"y": sv}
    return d


def doc1(s: Sel):
    return {} if s[0] == 0 else {"b": mk(s[0], s[1], s[2], s[3])}


def doc2(s: Sel, t: Sel):
    d = {}
    if s[0] != 0:
        d["a"] = mk(s[0], s[1], min(s[2], 2), s[3])
    if t[0] != 0:
        d["b"] = mk(t[0], t[1], min(t[2], 2), t[3])
    return d


def valid(*ss: Sel) -> bool:
    return all(0 <= s[0] <= 3 and 0 <= s[2] <= 3 for s in ss)


# ------------------------------------------------------------------------------------------------ oracle
def snap(x):
    """immutable, identity-free snapshot: ('m', ((k, snap), ...)) | ('d', v) | ('e', v)"""
    if isinstance(x, dict):
        return ("m", tuple((k, snap(x[k])) for k in sorted(x)))
    if isinstance(x, DefaultValue):
        return ("d", x.value)
    return ("e", x)


def ref_merge(t, s):
    """documented precedence on snapshots: later explicit > earlier explicit > later default > earlier default;
    maps merge key-wise; a map counts as explicit; a default never displaces an explicit value (or a map)."""
    assert s[0] == "m"
    out = dict(t[1]) if t[0] == "m" else {}
    for k, v in s[1]:
        if v[0] == "m":
            out[k] = ref_merge(out.get(k, ("m", ())), v)
        elif v[0] == "d":
            if k not in out or out[k][0] == "d":
                out[k] = v
        else:
            out[k] = v
    return ("m", tuple(sorted(out.items())))


def unwrap(s):
    """what a reader sees: DefaultValue marks removed at the leaf read back"""
    return s[1] if s[0] in ("d", "e") else s


# ------------------------------------------------------------------------------------------------ conditions
def merge_ref3(s1: Sel, s2: Sel, s3: Sel) -> bool:
    """
    pre: valid(s1, s2, s3)
    post: _
    """
    docs = [doc1(s1), doc1(s2), doc1(s3)]
    snaps = [snap(d) for d in docs]
    t = {}
    r = ("m", ())
    for d, sn in zip(docs, snaps):
        t = deep_update(t, d)
        r = ref_merge(r, sn)
    return snap(t) == r


def merge_ref2k(a1: Sel, b1: Sel, a2: Sel, b2: Sel) -> bool:
    """
    pre: valid(a1, b1, a2, b2)
    post: _
    """
    docs = [doc2(a1, b1), doc2(a2, b2)]
    snaps = [snap(d) for d in docs]
    t = {}
    r = ("m", ())
    for d, sn in zip(docs, snaps):
        t = deep_update(t, d)
        r = ref_merge(r, sn)
    return snap(t) == r


def sources_unmodified3(s1: Sel, s2: Sel, s3: Sel) -> bool:
    """
    pre: valid(s1, s2, s3)
    post: _
    """
    # the source documents are left unmodified: after every merge, and after a further merge *into the result*
    docs = [doc1(s1), doc1(s2), doc1(s3)]
    snaps = [snap(d) for d in docs]
    t = {}
    for d in docs:
        t = deep_update(t, d)
    if [snap(d) for d in docs] != snaps:
        return False
    deep_update(t, {"b": {"x": {"y": 12345, "z": 1}, "w": 2}})
    return [snap(d) for d in docs] == snaps


def result_independent_of_later_source_edits(s1: Sel, s2: Sel) -> bool:
    """
    pre: valid(s1, s2)
    post: _
    """
    # dual of the above (the doctest's "whoops, this was supposed to be a copy"): editing a source afterwards
    # must not change the merged result
    d1, d2 = doc1(s1), doc1(s2)
    t = deep_update(deep_update({}, d1), d2)
    before = snap(t)
    for d in (d1, d2):
        b = d.get("b")
        if isinstance(b, dict):
            x = b.get("x")
            if isinstance(x, dict):
                x["y"] = 777
            b["x2"] = 1
    return snap(t) == before


def getters_never_default(s1: Sel, s2: Sel) -> bool:
    """
    pre: valid(s1, s2)
    post: _
    """
    cfg = LanguageConfig()
    cfg.update({"nunavut.lang.zz": doc1(s1)})
    cfg.update({"nunavut.lang.zz": doc1(s2)})
    r = ref_merge(ref_merge(("m", ()), snap(doc1(s1))), snap(doc1(s2)))
    exp = dict(r[1]).get("b")
    got = cfg._get_config_value_raw("nunavut.lang.zz", "b", None)
    if isinstance(got, DefaultValue):
        return False
    if exp is None:
        return got is None
    if exp[0] == "m":
        return snap(got) == exp
    return got == exp[1]


_CPP = LanguageContextBuilder(include_experimental_languages=True).set_target_language("cpp").create().get_target_language()
_CPP_DEFAULTS = _CPP._config.get_config_value_as_dict("nunavut.lang.cpp", "defaults") if hasattr(_CPP, "_config") else None
_CPP_OPTIONS = dict(_CPP.get_options())
_STDS = ["c++14", "c++17", "c++20", "cetl++14-17", "c++17-pmr"]
_GROUP = ["std", "std_flavor", "variable_array_type_include", "variable_array_type_template", "variable_array_type_constructor_args",
          "allocator_include", "allocator_type", "allocator_is_default_constructible", "ctor_convention"]


def _defaults_table():
    import yaml
    import pathlib
    import nunavut.lang as L
    y = yaml.safe_load((pathlib.Path(L.__file__).parent / "properties.yaml").read_text())
    return y["nunavut.lang.cpp"]["defaults"], y["nunavut.lang.cpp"]["options"]


_DEFS, _BASEOPTS = _defaults_table()
_STD_ONLY = int(os.environ.get("C13_STD", "-1"))   # the runner splits the std dimension over processes


def shorthand_group(std_i: int, explicit_bits: int) -> bool:
    """
    pre: 0 <= std_i < len(_STDS) and 0 <= explicit_bits < 256
    pre: _STD_ONLY < 0 or std_i == _STD_ONLY
    post: _
    """
    # options as a user would leave them after merging: built-in option defaults, some group members given explicitly
    std = _STDS[std_i]
    opts = dict(_BASEOPTS)
    opts["std"] = std
    for i, k in enumerate(_GROUP[1:]):
        if (explicit_bits >> i) & 1:
            opts[k] = "uses-leading-allocator" if k == "ctor_convention" else "user-" + k
    final = dict(opts)
    if std in _DEFS:
        final.update(_DEFS[std])        # the shorthand sets its documented group as a unit
    must_raise = final["ctor_convention"] != "default" and not final.get("allocator_type")
    try:
        out = _CPP._validate_language_options(copy.deepcopy(_DEFS), opts)
    except ValueError:
        return must_raise
    return (not must_raise) and out == final


def builder_isolation(v1: int, v2: int) -> bool:
    """
    pre: 0 <= v1 <= 3 and 0 <= v2 <= 3
    post: _
    """
    # building a further language context with other overrides never changes what an earlier context reports
    sec = LanguageClassLoader.to_language_module_name("c")
    c1 = LanguageContextBuilder().set_target_language("c") \
        .set_target_language_configuration_override(Language.WKCV_DEFINITION_FILE_EXTENSION, ".x" + str(v1)) \
        .set_target_language_configuration_override(Language.WKCV_LANGUAGE_OPTIONS, {"target_endianness": "little", "zz": v1}).create()
    ext1 = c1.config.get_config_value(sec, Language.WKCV_DEFINITION_FILE_EXTENSION)
    opt1 = dict(c1.get_target_language().get_options())
    sn1 = snap(copy.deepcopy(c1.config.sections()[sec].get("options")))
    c2 = LanguageContextBuilder().set_target_language("c") \
        .set_target_language_configuration_override(Language.WKCV_DEFINITION_FILE_EXTENSION, ".y" + str(v2)) \
        .set_target_language_configuration_override(Language.WKCV_LANGUAGE_OPTIONS, {"target_endianness": "big", "zz": v2 + 10, "q": {"r": v2}}).create()
    c2.config.sections()[sec]["options"]["zz"] = -1
    return (c1.config.get_config_value(sec, Language.WKCV_DEFINITION_FILE_EXTENSION) == ext1 == ".x" + str(v1)
            and dict(c1.get_target_language().get_options()) == opt1 and opt1["zz"] == v1 and opt1["target_endianness"] == "little"
            and snap(c1.config.sections()[sec].get("options")) == sn1)


# ------------------------------------------------------------------------------------------------ shorthand: documented group as a unit
# docs/languages.rst documents what -std=c++17-pmr / cetl++14-17 stand for: these option keys (plus std / std_flavor themselves)
_DOC_GROUP = ["variable_array_type_include", "variable_array_type_template", "variable_array_type_constructor_args",
              "allocator_include", "allocator_type", "allocator_is_default_constructible", "ctor_convention"]


def shorthand_unit(std_i: int, explicit_bits: int) -> bool:
    """
    pre: 3 <= std_i < len(_STDS) and 0 <= explicit_bits < 128
    pre: _STD_ONLY < 0 or std_i == _STD_ONLY
    post: _
    """
    # "set their documented group of options as a unit": whatever the user gave for members of the documented group, the
    # effective group is the shorthand's own -- user values never survive and mix with it
    std = _STDS[std_i]

    def run(bits: int):
        opts = dict(_BASEOPTS)
        opts["std"] = std
        for i, k in enumerate(_DOC_GROUP):
            if (bits >> i) & 1:
                opts[k] = "uses-leading-allocator" if k == "ctor_convention" else "user-" + k
        return _CPP._validate_language_options(copy.deepcopy(_DEFS), opts)

    try:
        out = run(explicit_bits)
        ref = run(0)
    except ValueError:
        return False
    return all(out[k] == ref[k] for k in _DOC_GROUP)


# ------------------------------------------------------------------------------------------------ full precedence chain through the builder
class _H:
    def __init__(self, path: str) -> None:
        self.path = path

    def __enter__(self):
        return self

    def __exit__(self, *a):
        return False


_DOCS: dict = {}


def _fake_open(path, mode="r", encoding=None, **kw):
    return _H(str(path))


def _fake_yaml_loader(stream, Loader=None):
    if isinstance(stream, _H):
        return copy.deepcopy(_DOCS[stream.path])
    return _REAL_YAML_LOADER(stream, Loader=Loader)       # the built-in properties.yaml is parsed for real


import nunavut.lang as _NL            # noqa: E402
import nunavut.lang._config as _NC    # noqa: E402

_REAL_YAML_LOADER = _NC.yaml_loader
_NL.open = _fake_open                 # type: ignore  (builtins.open as seen by LanguageContextBuilder.add_config_files)
_NC.open = _fake_open                 # type: ignore
_NC.yaml_loader = _fake_yaml_loader   # type: ignore
_OVK_ONLY = int(os.environ.get("C13_OVK", "-1"))            # the runner splits these two dimensions over processes
_ONECALL_ONLY = int(os.environ.get("C13_ONECALL", "-1"))
_SMALL = os.environ.get("C13_SMALL", "0") == "1"            # quick tier: the top-level key is absent|explicit only
_SEC = "nunavut.lang.c"
_BUILTIN_DOC = {_SEC: {"extension": ".h", "zz_top": DefaultValue(0), "options": {"builtin_opt": 1, "target_endianness": "any"}}}
_BUILTIN = snap(_BUILTIN_DOC[_SEC])


class _Loader:
    """stands for LanguageClassLoader: owns the LanguageConfig, pre-loaded with a (small) built-in document"""

    def __init__(self) -> None:
        self.config = LanguageConfig()
        self.config.update(copy.deepcopy(_BUILTIN_DOC))


def _new_builder() -> LanguageContextBuilder:
    b = object.__new__(LanguageContextBuilder)
    b._target_language_name = "c"
    b._target_language_config = {}
    b._ln_loader = _Loader()
    b._include_experimental_languages = False
    return b


def _filedoc(a: Sel, b: Sel):
    """a YAML override file as parsed: the target-language section with a top-level key and a key under options"""
    sec = {}
    if a[0] != 0:
        sec["zz_top"] = mk(1 if a[0] == 2 else a[0], a[1], min(a[2], 1), a[3])     # files carry explicit values only
    if b[0] != 0:
        sec["options"] = {"zz_opt": mk(1 if b[0] == 2 else b[0], b[1], min(b[2], 1), b[3])}
    return {_SEC: sec} if sec else {}


def builder_chain(a1: Sel, b1: Sel, a2: Sel, b2: Sel, ovk: int, ovv: int, one_call: bool) -> bool:
    """
    pre: all(s[0] in (0, 1, 3) and s[2] in (0, 1) for s in (a1, b1, a2, b2)) and 0 <= ovk <= 2
    pre: (not _SMALL) or all(s[0] in (0, 1) and s[2] == 0 for s in (a1, a2))
    pre: (_OVK_ONLY < 0 or ovk == _OVK_ONLY) and (_ONECALL_ONLY < 0 or one_call == (_ONECALL_ONLY == 1))
    post: _
    """
    # explicit API/CLI value > later file > earlier file > built-in; a CLI *default* never displaces a file value;
    # files are deep-merged: keys a later file does not mention keep the earlier file's value
    _DOCS.clear()
    _DOCS["f1"], _DOCS["f2"] = _filedoc(a1, b1), _filedoc(a2, b2)
    b = _new_builder()
    if one_call:
        b.add_config_files("f1", "f2")
    else:
        b.add_config_files("f1")
        b.add_config_files("f2")
    ov = {}
    if ovk == 1:
        ov = {"zz_opt": ovv}
    elif ovk == 2:
        ov = {"zz_opt": DefaultValue(ovv)}
    b.set_target_language_configuration_override(Language.WKCV_LANGUAGE_OPTIONS, ov)
    # the first half of LanguageContextBuilder.create(): pending overrides are applied to the target language's section
    # (create() itself -- with the real Language object -- is exercised by builder_isolation)
    b.config.update_section(_SEC, b._target_language_config)
    cfg = b.config
    r = _BUILTIN
    for d in (_DOCS["f1"], _DOCS["f2"]):
        if _SEC in d:
            r = ref_merge(r, snap(d[_SEC]))
    r = ref_merge(r, snap({"options": ov}))
    got = snap(cfg.sections()[_SEC])
    if got != r:
        return False
    # and the reader's view through the accessor (compared by value)
    exp_opt = dict(dict(r[1])["options"][1]).get("zz_opt")
    seen = cfg.get_config_value_as_dict(_SEC, Language.WKCV_LANGUAGE_OPTIONS, {}).get("zz_opt")
    if exp_opt is None:
        return seen is None
    return snap(seen) == exp_opt if exp_opt[0] == "m" else seen == exp_opt[1]


# ------------------------------------------------------------------------------------------------ file order vs. hash order
from xh import permset as _ps      # noqa: E402

_ps.inject(_NL, _NC)               # any set(...) built by name inside nunavut.lang / nunavut.lang._config iterates in a symbolic order


def config_file_order_ignores_hash_order(rot: int, rev: bool, v1: int, v2: int) -> bool:
    """
    pre: 0 <= rot <= 2
    post: _
    """
    # "later configuration file over earlier configuration file": the order in which the files were GIVEN decides, whatever order a
    # hash-based container would iterate them in (PYTHONHASHSEED)
    _ps.Order.rot, _ps.Order.rev = rot, rev
    try:
        _DOCS.clear()
        _DOCS["f1"] = {_SEC: {"zz_top": v1, "options": {"zz_opt": v1, "only1": 1}}}
        _DOCS["f2"] = {_SEC: {"zz_top": v2, "options": {"zz_opt": v2, "only2": 2}}}
        b = _new_builder()
        b.add_config_files("f1", "f2")
        sec = b.config.sections()[_SEC]
        return sec["zz_top"] == v2 and sec["options"]["zz_opt"] == v2 and sec["options"]["only1"] == 1 and sec["options"]["only2"] == 2 \
            and list(sec["options"])[-2:] == ["only1", "only2"]
    finally:
        _ps.Order.rot, _ps.Order.rev = 0, False


# ------------------------------------------------------------------------------------------------ command line defaults vs. file values
import argparse as _argparse          # noqa: E402
import pathlib as _pathlib            # noqa: E402

from nunavut.cli import _make_parser  # noqa: E402
from nunavut.cli.runners import ArgparseRunner  # noqa: E402

_PARSER = _make_parser()
_FE, _FL = int(os.environ.get("C13_FE", "-1")), int(os.environ.get("C13_FL", "-1"))      # split over processes


def cli_defaults_never_displace_file_values(file_endianness: int, flag_endianness: int, file_asserts: bool, flag_asserts: bool) -> bool:
    """
    pre: 0 <= file_endianness <= 3 and 0 <= flag_endianness <= 3
    pre: (_FE < 0 or file_endianness == _FE) and (_FL < 0 or flag_endianness == _FL)
    post: _
    """
    # "values that are merely defaults of the command line never displace a value given explicitly in a file": the REAL argument parser
    # (its own defaults), the real ArgparseRunner._create_language_context, a configuration file as parsed.  Every documented choice of the
    # flag is tried, including the one that equals the built-in default ("any"): given explicitly, it still wins over the file.
    names = [None, "little", "big", "any"]
    argv = ["/dsdl/root", "--target-language", "c", "--configuration", "cfgfile"]
    if names[flag_endianness]:
        argv = ["--target-endianness", names[flag_endianness]] + argv
    if flag_asserts:
        argv = ["--enable-serialization-asserts"] + argv
    args = _PARSER.parse_args(argv)
    opts = {}
    if names[file_endianness]:
        opts["target_endianness"] = names[file_endianness]
    if file_asserts:
        opts["enable_serialization_asserts"] = True
    _DOCS.clear()
    _DOCS["cfgfile"] = {_SEC: {"options": opts}} if opts else {}
    r = object.__new__(ArgparseRunner)
    r._args = args
    lang = r._create_language_context().get_target_language()
    want_e = names[flag_endianness] or names[file_endianness] or "any"
    want_a = bool(flag_asserts or file_asserts)
    return lang.get_option("target_endianness") == want_e and bool(lang.get_option("enable_serialization_asserts")) == want_a
