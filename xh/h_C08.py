"""C08 harness: listing and dry-run modes tell the truth.

Real code: ArgparseRunner.run / _list_outputs_only / _list_inputs_only / _generate / _should_generate_support,
_NunavutArgumentParser._post_process_args (the documented precondition on flag combinations),
DSDLCodeGenerator._generate_type, SupportGenerator._generate_header / _copy_header, CodeGenerator._generate_code.
Stubs: (1) generator recorders that implement the documented generate_all(is_dryrun, allow_overwrite,
omit_serialization_support, embed_auditing_info) contract over an abstract file set; (2) FakeFS.
"""
import argparse
import typing

import nunavut.jinja
from nunavut.cli import _NunavutArgumentParser
from nunavut.cli.runners import ArgparseRunner
from nunavut.jinja import DSDLCodeGenerator, SupportGenerator
from xh.fakefs import FakeFS, FakePath

GS = ("always", "never", "as-needed", "only")


class StubGen:
    """Honours the AbstractGenerator.generate_all contract: returns the files it (would) generate(s); touches the
    file system only when is_dryrun is False.  Type generators emit one file per type (+ one per namespace when
    generate_namespace_types); support generators emit type support + serialization support unless omitted."""

    def __init__(self, kind: str, log: list, ns_types: bool) -> None:
        self.kind, self.log = kind, log
        self.generate_namespace_types = ns_types

    def generate_all(self, is_dryrun=False, allow_overwrite=True, omit_serialization_support=False, embed_auditing_info=False):
        if self.kind == "types":
            files = ["T1", "T2"] + (["NS"] if self.generate_namespace_types else [])
        else:
            files = ["TS"] + ([] if omit_serialization_support else ["SS"])
        self.log.append((self.kind, is_dryrun, allow_overwrite, tuple(files)))
        return files

    def get_templates(self, omit_serialization_support=False):
        return []


class _Out:
    def __init__(self) -> None:
        self.p: typing.List[str] = []

    def write(self, x: str) -> None:
        self.p.append(x)


class _RejectedByCli(Exception):
    pass


class _P(_NunavutArgumentParser):
    def error(self, message):  # argparse would print usage and exit(2)
        raise _RejectedByCli(message)


def accepted(gs: str, omit: bool) -> bool:
    """the CLI's own precondition, taken from the real parser post-processing (not hand-written)"""
    try:
        _P._post_process_args(object.__new__(_P), argparse.Namespace(omit_serialization_support=omit, generate_support=gs))
        return True
    except _RejectedByCli:
        return False


def run_mode(gs: str, omit: bool, ns_types: bool, list_outputs: bool, list_inputs: bool, dry: bool, no_overwrite: bool):
    import nunavut.cli.runners as R
    log: list = []
    r = object.__new__(ArgparseRunner)
    r._args = argparse.Namespace(generate_support=gs, omit_serialization_support=omit, list_outputs=list_outputs, list_inputs=list_inputs,
                                 list_configuration=False, dry_run=dry, no_overwrite=no_overwrite, embed_auditing_info=False)
    r._generator = StubGen("types", log, ns_types)
    r._support_generator = StubGen("support", log, ns_types)

    class _NS:
        @staticmethod
        def get_all_types():
            return []

        @staticmethod
        def get_all_datatypes():
            return []
    r._root_namespace = _NS()
    out = _Out()

    class _Sys:
        stdout = out
    old = R.sys
    R.sys = _Sys  # type: ignore
    try:
        r.run()
    finally:
        R.sys = old
    return log, "".join(out.p)


def listing_truth(gsi: int, omit: bool, ns_types: bool, no_overwrite: bool) -> bool:
    """
    pre: 0 <= gsi < 4 and accepted(GS[gsi], omit)
    post: _
    """
    gs = GS[gsi]
    log_l, printed = run_mode(gs, omit, ns_types, True, False, False, no_overwrite)
    log_g, _ = run_mode(gs, omit, ns_types, False, False, False, no_overwrite)
    listed = sorted(x for x in printed.split(";") if x)
    created = sorted(f for (_, dry, _, files) in log_g if not dry for f in files)
    # listing creates nothing: every generator call it makes is a dry run
    no_effects = all(dry for (_, dry, _, _) in log_l)
    # the real run is a real run and honours --no-overwrite
    real_ok = all((not dry) and allow == (not no_overwrite) for (_, dry, allow, _) in log_g)
    return listed == created and no_effects and real_ok


def dry_run_and_input_listing_touch_nothing(gsi: int, omit: bool, ns_types: bool, which: int) -> bool:
    """
    pre: 0 <= gsi < 4 and accepted(GS[gsi], omit) and 0 <= which <= 1
    post: _
    """
    if which == 0:
        log, _ = run_mode(GS[gsi], omit, ns_types, False, False, True, False)       # --dry-run
        log_g, _ = run_mode(GS[gsi], omit, ns_types, False, False, False, False)
        # dry run visits the same generators as the real run, all as dry runs
        return all(dry for (_, dry, _, _) in log) and sorted(k for (k, _, _, _) in log) == sorted(k for (k, _, _, _) in log_g)
    log, _ = run_mode(GS[gsi], omit, ns_types, False, True, False, False)           # --list-inputs
    return all(dry for (_, dry, _, _) in log)


# ------------------------------------------------------------------------------ real generators: is_dryrun is honoured
_CUR: typing.List[FakeFS] = [FakeFS()]


def _open(name, mode="r", encoding=None, **kw):
    return _CUR[0].open(name, mode, encoding, **kw)


nunavut.jinja.open = _open  # type: ignore


class _Tmpl:
    def generate(self, **kw):
        return iter(["generated\n"])


class _Env:
    now_utc = None

    def get_template(self, name):
        return _Tmpl()


def real_generators_honour_dryrun(is_dryrun: bool, exists: bool, which: int) -> bool:
    """
    pre: 0 <= which <= 2
    post: _
    """
    fs = FakeFS()
    _CUR[0] = fs
    if exists:
        fs.put("out/x.h", "OLD", 0o444)
    fs.put("res/y.h", "RES\n", 0o444)
    before = fs.snapshot()
    target = FakePath(fs, "out/x.h")
    if which == 0:
        g = object.__new__(DSDLCodeGenerator)
        g._env = _Env()
        g._post_processors = None
        g.filter_type_to_template = lambda t: "StructureType.j2"  # type: ignore
        ret = g._generate_type(None, target, is_dryrun, True)
    elif which == 1:
        g = object.__new__(SupportGenerator)
        g._env = _Env()
        g._post_processors = None
        ret = g._generate_header(FakePath(fs, "res/serialization.j2"), target, is_dryrun, True)
    else:
        g = object.__new__(SupportGenerator)
        ret = g._copy_header(FakePath(fs, "res/y.h"), target, is_dryrun, True, [nunavut._postprocessors.TrimTrailingWhitespace()], [])
    if ret != target:
        return False        # same path reported in both modes: what is listed is what is created
    if is_dryrun:
        return fs.snapshot() == before and len(fs.log) == 0
    return "out/x.h" in fs.files and fs.files["out/x.h"][0] in ("generated\n", "RES\n")
