"""C09 harness: identifier stropping yields valid, unreserved identifiers (or raises) and leaves valid unreserved ones unchanged.

Real code: nunavut.lang.Language.filter_id -> TokenEncoder.strop (lru_cache bypassed: hashing a symbolic str realises it) with the
language's real configuration and failure handlers, for c, cpp and py.
Oracle: built from the language CONFIGURATION (reserved_identifiers, reserved_token_patterns_by_type), not from the encoder's state.
"""
import os
import re
import typing

from nunavut.lang import LanguageContextBuilder
from nunavut.lang._common import TokenEncoder

LANG = os.environ.get("C09_LANG", "c")
IDTYPE = os.environ.get("C09_TYPE", "any")
MAXLEN = int(os.environ.get("C09_LEN", "2"))
FIRST = os.environ.get("C09_FIRST", "")          # thorough tier: split by first character over processes

if hasattr(TokenEncoder.strop, "__wrapped__"):
    TokenEncoder.strop = TokenEncoder.strop.__wrapped__     # type: ignore

_L = LanguageContextBuilder(include_experimental_languages=True).set_target_language(LANG).create().get_target_language()
# one representative per class the configuration can distinguish (lower, upper, digit, underscore, space, tab, ASCII punctuation,
# a non-ASCII letter) plus the letters needed to spell short reserved words of each language and their stropped forms
SIGMA = "aA1_ " + chr(9) + "-" + chr(0xE9) + "ifdo"
_RESERVED = set(_L.get_config_value_as_list("reserved_identifiers", default_value=[]))
if LANG == "py":
    import builtins
    import keyword
    _RESERVED |= set(keyword.kwlist) | set(dir(builtins))      # python's reserved names are the interpreter's own
_PATS_CFG = _L.get_config_value_as_dict("reserved_token_patterns_by_type", default_value={})
# documented: id type 'any' applies the rules of ALL identifier types
_KEYS = (lambda cfg: tuple(cfg.keys()) if IDTYPE == "any" else ("all", IDTYPE))
_PATS = [re.compile(p) for k in _KEYS(_PATS_CFG) for p in (_PATS_CFG.get(k) or [])]
_CID = re.compile(r"[A-Za-z_][A-Za-z0-9_]*")
# character sequences the configuration declares unusable in an identifier of this language/type (C++: "__" anywhere, ...)
_ENC_CFG = _L.get_config_value_as_dict("token_encoding_rules_by_identifier_type", default_value={})
_ENC = [re.compile(p) for k in _KEYS(_ENC_CFG) for p in (_ENC_CFG.get(k) or [])]


def _valid(tok: str) -> bool:
    if any(p.search(tok) is not None for p in _ENC):
        return False
    if LANG == "py":
        return tok.isidentifier() and tok.isascii()
    return _CID.fullmatch(tok) is not None


def _reserved(tok: str) -> bool:
    if tok in _RESERVED:
        return True
    return any(p.match(tok) is not None for p in _PATS)


def in_sigma(token: str) -> bool:
    return all(c in SIGMA for c in token) and (not FIRST or token.startswith(FIRST))


def strop_ok(token: str) -> bool:
    """
    pre: 1 <= len(token) <= MAXLEN and in_sigma(token)
    post: _
    """
    return _check(token)


# ---- whole reserved words (the short alphabet above cannot spell most of them).  The lists are the LANGUAGES' own, written down here
# independently of nunavut's configuration: ISO C11 / C++17 keywords and alternative tokens; Python's keyword.kwlist and builtins.
_C_WORDS = ("auto break case char const continue default do double else enum extern float for goto if inline int long register restrict return short "
            "signed sizeof static struct switch typedef union unsigned void volatile while _Alignas _Alignof _Atomic _Bool _Complex _Generic "
            "_Imaginary _Noreturn _Static_assert _Thread_local").split()
_CPP_WORDS = _C_WORDS[:34] + ("alignas alignof and and_eq asm bitand bitor bool catch char16_t char32_t class compl const_cast constexpr decltype delete "
                              "dynamic_cast explicit export false friend mutable namespace new noexcept not not_eq nullptr operator or or_eq private protected "
                              "public reinterpret_cast static_assert static_cast template this thread_local throw true try typeid typename using virtual "
                              "wchar_t xor xor_eq").split()
if LANG == "py":
    import builtins as _b
    import keyword as _k
    WORDS = sorted(set(_k.kwlist) | set(dir(_b)))
else:
    WORDS = sorted(set(_CPP_WORDS if LANG == "cpp" else _C_WORDS))
CHUNK, NCHUNKS = int(os.environ.get("C09_CHUNK", "0")), int(os.environ.get("C09_NCHUNKS", "1"))


def reserved_word_never_comes_back(i: int, suffix: str) -> bool:
    """
    pre: 0 <= i < len(WORDS) and i % NCHUNKS == CHUNK
    pre: suffix == "" or suffix == "_"
    post: _
    """
    # a keyword / reserved name of the target language itself (optionally followed by an underscore: then usually no
    # longer reserved, and to be returned unchanged) never comes back as a reserved word
    token = WORDS[i] + suffix
    out_ok = _check(token)
    if not out_ok:
        return False
    if suffix == "":
        try:
            return _L.filter_id(token, IDTYPE) != token
        except RuntimeError:
            return True
    return True


def _check(token: str) -> bool:
    try:
        out = _L.filter_id(token, IDTYPE)
    except RuntimeError:
        return True                       # raising is allowed; returning an invalid or reserved token is not
    try:
        from crosshair import deep_realize
        out_r = deep_realize(out)
        tok_r = deep_realize(token)
    except ImportError:                   # native replay
        out_r, tok_r = out, token
    if not _valid(out_r) or _reserved(out_r):
        return False
    if _valid(tok_r) and not _reserved(tok_r) and out_r != tok_r:
        return False                      # already valid, unreserved identifiers are returned unchanged
    # same input, same result (a second call through the same encoder)
    return _L.filter_id(tok_r, IDTYPE) == out_r


# ------------------------------------------------------------------------------------------------ process history
_RES2 = "aa"
OTHER_FIRST = int(os.environ.get("C09_OTHER_FIRST", "-1"))     # split over processes


def _new_language(extra_reserved: bool):
    b = LanguageContextBuilder(include_experimental_languages=True).set_target_language(LANG)
    if extra_reserved:
        res = list(_L.get_config_value_as_list("reserved_identifiers", default_value=[])) + [_RES2]
        b.set_target_language_configuration_override("reserved_identifiers", res)
    return b.create().get_target_language()


def result_independent_of_earlier_language_objects(token: str, other_first: bool) -> bool:
    """
    pre: 1 <= len(token) <= 2 and all(c in "a_" for c in token)
    pre: OTHER_FIRST < 0 or other_first == (OTHER_FIRST == 1)
    post: _
    """
    # "the result depends only on the input (same in every process)": a language object with ITS configuration gives the same answer
    # whether or not another language object with another stropping configuration was created and used before it in this process
    if other_first:
        other = _new_language(True)
        other.filter_id(_RES2, IDTYPE)
        other.filter_id(token, IDTYPE)
    mine = _new_language(False)
    out = mine.filter_id(token, IDTYPE)
    ref = _L.filter_id(token, IDTYPE)            # the module-level object: first of its configuration in this process
    if out != ref:
        return False
    # and the other way round: the object with the extra reserved word honours it although a default object was used before it
    late = _new_language(True)
    try:
        got = late.filter_id(_RES2, IDTYPE)
    except RuntimeError:
        return True
    return got != _RES2
