"""C09 harness: identifier stropping yields valid, unreserved identifiers (or raises) and leaves valid unreserved ones unchanged.

Real code: nunavut.lang.Language.filter_id -> TokenEncoder.strop (lru_cache bypassed: hashing a symbolic str realises it) with the
language's real configuration and failure handlers, for c, cpp and py.
Oracle: built from the language CONFIGURATION (reserved_identifiers, reserved_token_patterns_by_type), not from the encoder's state.
"""
import os
import re
import typing

from nunavut.lang import LanguageContextBuilder
from nunavut.lang._common import TokenEncoder

LANG = os.environ.get("C09_LANG", "c")
IDTYPE = os.environ.get("C09_TYPE", "any")
MAXLEN = int(os.environ.get("C09_LEN", "2"))
FIRST = os.environ.get("C09_FIRST", "")          # thorough tier: split by first character over processes

if hasattr(TokenEncoder.strop, "__wrapped__"):
    TokenEncoder.strop = TokenEncoder.strop.__wrapped__     # type: ignore

_L = LanguageContextBuilder(include_experimental_languages=True).set_target_language(LANG).create().get_target_language()
# one representative per class the configuration can distinguish (lower, upper, digit, underscore, space, tab, ASCII punctuation,
# a non-ASCII letter) plus the letters needed to spell short reserved words of each language and their stropped forms
SIGMA = "aA1_ " + chr(9) + "-" + chr(0xE9) + "ifdo"
_RESERVED = set(_L.get_config_value_as_list("reserved_identifiers", default_value=[]))
if LANG == "py":
    import builtins
    import keyword
    _RESERVED |= set(keyword.kwlist) | set(dir(builtins))      # python's reserved names are the interpreter's own
_PATS_CFG = _L.get_config_value_as_dict("reserved_token_patterns_by_type", default_value={})
_PATS = [re.compile(p) for k in ("all", IDTYPE) for p in (_PATS_CFG.get(k) or [])]
_CID = re.compile(r"[A-Za-z_][A-Za-z0-9_]*")
# character sequences the configuration declares unusable in an identifier of this language/type (C++: "__" anywhere, ...)
_ENC_CFG = _L.get_config_value_as_dict("token_encoding_rules_by_identifier_type", default_value={})
_ENC = [re.compile(p) for k in ("all", IDTYPE) for p in (_ENC_CFG.get(k) or [])]


def _valid(tok: str) -> bool:
    if any(p.search(tok) is not None for p in _ENC):
        return False
    if LANG == "py":
        return tok.isidentifier() and tok.isascii()
    return _CID.fullmatch(tok) is not None


def _reserved(tok: str) -> bool:
    if tok in _RESERVED:
        return True
    return any(p.match(tok) is not None for p in _PATS)


def in_sigma(token: str) -> bool:
    return all(c in SIGMA for c in token) and (not FIRST or token.startswith(FIRST))


def strop_ok(token: str) -> bool:
    """
    pre: 1 <= len(token) <= MAXLEN and in_sigma(token)
    post: _
    """
    try:
        out = _L.filter_id(token, IDTYPE)
    except RuntimeError:
        return True                       # raising is allowed; returning an invalid or reserved token is not
    try:
        from crosshair import deep_realize
        out_r = deep_realize(out)
        tok_r = deep_realize(token)
    except ImportError:                   # native replay
        out_r, tok_r = out, token
    if not _valid(out_r) or _reserved(out_r):
        return False
    if _valid(tok_r) and not _reserved(tok_r) and out_r != tok_r:
        return False                      # already valid, unreserved identifiers are returned unchanged
    # same input, same result (a second call through the same encoder)
    return _L.filter_id(tok_r, IDTYPE) == out_r


# ------------------------------------------------------------------------------------------------ process history
_RES2 = "aa"


def _new_language(extra_reserved: bool):
    b = LanguageContextBuilder(include_experimental_languages=True).set_target_language(LANG)
    if extra_reserved:
        res = list(_L.get_config_value_as_list("reserved_identifiers", default_value=[])) + [_RES2]
        b.set_target_language_configuration_override("reserved_identifiers", res)
    return b.create().get_target_language()


def result_independent_of_earlier_language_objects(token: str, other_first: bool) -> bool:
    """
    pre: 1 <= len(token) <= 2 and all(c in "a_" for c in token)
    post: _
    """
    # "the result depends only on the input (same in every process)": a language object with ITS configuration gives the same answer
    # whether or not another language object with another stropping configuration was created and used before it in this process
    if other_first:
        other = _new_language(True)
        other.filter_id(_RES2, IDTYPE)
        other.filter_id(token, IDTYPE)
    mine = _new_language(False)
    out = mine.filter_id(token, IDTYPE)
    ref = _L.filter_id(token, IDTYPE)            # the module-level object: first of its configuration in this process
    if out != ref:
        return False
    # and the other way round: the object with the extra reserved word honours it although a default object was used before it
    late = _new_language(True)
    try:
        got = late.filter_id(_RES2, IDTYPE)
    except RuntimeError:
        return True
    return got != _RES2
