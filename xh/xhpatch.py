"""Harness-side adjustment of CrossHair 0.0.110 for pipeline harnesses (imported by the harness module, i.e. inside the CrossHair
process).  CrossHair randomly "short-circuits" calls of contract-bearing functions -- including its own wrapper of builtins.hash -- by
returning an uninterpreted symbolic value instead of running the body.  Code that hashes objects with a Python-level __hash__ (pydsdl
types in lru_cache keys and sets) then hands a symbolic int to C-level dict/set code ("proxy intolerance"), the path is abandoned as
UNKNOWN and a condition that holds can never be confirmed.  Interpreting every body is the more precise semantics, so short-circuiting
is switched off wherever interpretation is allowed.  Nothing else in the tool is touched."""
try:
    import crosshair.core as _cc

    _orig = _cc.consider_shortcircuit

    def _no_shortcircuit(fn, sig, bound, subconditions, allow_interpretation=True):
        if allow_interpretation:
            return None
        return _orig(fn, sig, bound, subconditions, allow_interpretation=allow_interpretation)

    _cc.consider_shortcircuit = _no_shortcircuit
except ImportError:  # native replay
    pass
