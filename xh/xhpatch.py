"""Harness-side adjustment of CrossHair 0.0.110 for pipeline harnesses (imported by the harness module, i.e. inside the CrossHair
process).  CrossHair randomly "short-circuits" calls of contract-bearing functions -- including its own wrapper of builtins.hash -- by
returning an uninterpreted symbolic value instead of running the body.  Code that hashes objects with a Python-level __hash__ (pydsdl
types in lru_cache keys and sets) then hands a symbolic int to C-level dict/set code ("proxy intolerance"), the path is abandoned as
UNKNOWN and a condition that holds can never be confirmed.  Interpreting every body is the more precise semantics, so short-circuiting
is switched off wherever interpretation is allowed.

Second adjustment (a stub, listed in the evidence of every harness that imports this module): the bundled jinja2.utils.Namespace (the object
behind `{% set ns = namespace(...) %}`) overrides __getattribute__ so that EVERY attribute, `__init__` and `__class__` included, is looked up
in its dictionary.  CrossHair constructs instances itself and fetches `obj.__init__` / `obj.__class__` through the instance, which plain
CPython never does, and so fails with an AttributeError that does not exist natively.  Under CrossHair only, the class is replaced by one with
the same template-visible behaviour (attribute read = dictionary lookup, AttributeError when missing; item assignment = dictionary store) that
resolves dunder attributes normally.  Native replays run the real class."""
try:
    import crosshair.core as _cc

    _orig = _cc.consider_shortcircuit

    def _no_shortcircuit(fn, sig, bound, subconditions, allow_interpretation=True):
        if allow_interpretation:
            return None
        return _orig(fn, sig, bound, subconditions, allow_interpretation=allow_interpretation)

    _cc.consider_shortcircuit = _no_shortcircuit

    _install_namespace_standin = True
    import os as _os
    if _os.environ.get("VERIF_UNDER_CROSSHAIR") == "1":
        import nunavut.jinja.jinja2.defaults as _jd
        import nunavut.jinja.jinja2.runtime as _jr
        import nunavut.jinja.jinja2.utils as _ju

        class Namespace(object):  # same name: the compiled templates test isinstance(x, Namespace) through runtime.Namespace
            def __init__(*args, **kwargs):
                self, args = args[0], args[1:]
                object.__setattr__(self, "_Namespace__attrs", dict(*args, **kwargs))

            def __getattr__(self, name):
                try:
                    return object.__getattribute__(self, "_Namespace__attrs")[name]
                except KeyError:
                    raise AttributeError(name)

            def __setitem__(self, name, value):
                object.__getattribute__(self, "_Namespace__attrs")[name] = value

            def __repr__(self):
                return "<Namespace %r>" % object.__getattribute__(self, "_Namespace__attrs")

        _ju.Namespace = _jr.Namespace = Namespace
        _jd.DEFAULT_NAMESPACE["namespace"] = Namespace
except ImportError:  # native replay
    pass
