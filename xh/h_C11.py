"""C11 harness: types map one-to-one onto files in the output tree; the namespace model is a tree.

Real code: nunavut._namespace.build_namespace_tree / Namespace.__init__ / get_all_datatypes / get_all_namespaces /
get_nested_namespaces / find_output_path_for_type, nunavut.lang._common.IncludeGenerator.make_path,
Language.filter_short_reference_name / filter_id.
Types are duck-typed pydsdl composites chosen by symbolic selectors (namespace, short name, version); pathlib.exists/resolve are
stubbed (no file system is consulted).
"""
import os
import pathlib
import typing

import nunavut._namespace
from nunavut._namespace import build_namespace_tree
from xh import permset
from nunavut.lang import LanguageContextBuilder
from nunavut.lang._common import IncludeGenerator

LANG = os.environ.get("C11_LANG", "c")
ROOTNAME = os.environ.get("C11_ROOT", "r")          # "r" | a word reserved in the target language (c: register, py: str)
OUT = os.environ.get("C11_OUT", "/out")             # output directory spelling: /out | out | /out/
WIDE = os.environ.get("C11_WIDE", "0") == "1"
FIRST = int(os.environ.get("C11_FIRST", "-1"))      # thorough: split on the first type's namespace selector
pathlib.Path.exists = lambda self, **k: True                    # type: ignore
pathlib.Path.resolve = lambda self, strict=False: self          # type: ignore
LCTX = LanguageContextBuilder(include_experimental_languages=True).set_target_language(LANG).create()
_L = LCTX.get_target_language()
_RES = "if" if LANG != "py" else "str"
# R.ab next to R.a(.b): sibling namespaces one of whose names is a prefix of the other
NSS = [ROOTNAME, ROOTNAME + ".a.b", ROOTNAME + "." + _RES, ROOTNAME + ".ab"] + ([ROOTNAME + ".a", ROOTNAME + ".a.b.c"] if WIDE else [])
# The order in which a namespace's children are enumerated is hash-seed dependent.  In processes started with C11_PERM=1 *outside CrossHair*
# the module's `set` is a set whose iteration order is insertion order or its reverse (`rev`): the NATIVE_SMOKE entries below enumerate both
# orders concretely over the types of the prefix-named sibling namespaces.  Under CrossHair the class is not injected (interpreting it under
# tracing did not finish 12 combinations in 20 minutes) and `rev` is pinned to False: a concrete run, labelled as such in the evidence.
PERM = os.environ.get("C11_PERM", "0") == "1"
UNDER_XH = os.environ.get("VERIF_UNDER_CROSSHAIR") == "1"
if PERM and os.environ.get("VERIF_UNDER_CROSSHAIR") != "1":
    permset.inject(nunavut._namespace)
NAMES = ["A", "A_1"] + (["B"] if WIDE else [])
EXT = _L.extension


class V:
    def __init__(self, M: int, m: int) -> None:
        self.major, self.minor = M, m


class Ty:
    parent_service = None
    has_parent_service = False

    def __init__(self, ns: str, name: str, M: int, m: int) -> None:
        self.full_namespace = ns
        self.short_name = name
        self.version = V(M, m)
        self.name_components = ns.split(".") + [name]
        self.namespace_components = ns.split(".")
        self.full_name = ns + "." + name
        self.root_namespace = ROOTNAME
        self.attributes: typing.List[typing.Any] = []
        self.source_file_path = pathlib.Path("/in/" + ns.replace(".", "/") + "/" + f"{name}.{M}.{m}.dsdl")

    def key(self) -> typing.Tuple[str, str, int, int]:
        return (self.full_namespace, self.short_name, self.version.major, self.version.minor)

    def __hash__(self) -> int:
        return hash(self.key())

    def __eq__(self, o: typing.Any) -> bool:
        return isinstance(o, Ty) and self.key() == o.key()

    def __str__(self) -> str:
        return self.full_name + f".{self.version.major}.{self.version.minor}"


def _strop(component: str) -> str:
    return LCTX.filter_id_for_target(component, "path")


def _expected_rel(t: Ty) -> str:
    """<stropped namespace components>/<ShortName>_<major>_<minor><extension>"""
    comps = [_strop(c) for c in t.full_namespace.split(".")]
    return "/".join(comps + [f"{_strop(t.short_name)}_{t.version.major}_{t.version.minor}{EXT}"])


def tree(sel: typing.List[typing.Tuple[int, int, int]], rev: bool) -> bool:
    """
    pre: 1 <= len(sel) <= MAXK
    pre: all(0 <= a < len(NSS) and 0 <= b < len(NAMES) and 0 <= c <= 1 for a, b, c in sel)
    pre: FIRST < 0 or sel[0][0] * len(NAMES) * 2 + sel[0][1] * 2 + sel[0][2] == FIRST
    pre: not rev or (PERM and not UNDER_XH)
    pre: (not PERM) or all(a in (1, 3) and b == 0 and c == 0 for a, b, c in sel)
    post: _
    """
    types: typing.List[Ty] = []
    for a, b, c in sel:
        t = Ty(NSS[a], NAMES[b], c, 0)
        if t not in types:
            types.append(t)
    permset.Order.rev = rev               # children enumerated in insertion order or in the reverse order (<= 2 children per node at this bound)
    root = build_namespace_tree(types, "/in/" + ROOTNAME, OUT, LCTX)
    alltypes = list(root.get_all_datatypes())
    # each type exactly once
    if sorted(t.key() for t, _ in alltypes) != sorted(t.key() for t in types):
        return False
    paths = [p.as_posix() for _, p in alltypes]
    outn = pathlib.Path(OUT).as_posix()
    pmap = {t.key(): p for t, p in alltypes}
    for t in types:
        rel = _expected_rel(t)
        p = pmap[t.key()].as_posix()
        # exact layout, and nothing outside the output directory
        if p != outn + "/" + rel:
            return False
        # the same relative path when the type is merely referenced (include path built by the language support)
        if IncludeGenerator.make_path(t, _L, EXT).as_posix() != rel:
            return False
    # distinct types never share a file (stropping of these names is injective: no folded names in this alphabet)
    if len(set(paths)) != len(paths):
        return False
    # every namespace on the way from the root to a type exactly once, including empty intermediate ones
    nodes = [n for n, _ in root.get_all_namespaces()]
    nss = [n.full_namespace for n in nodes]
    if len(set(nss)) != len(nss):
        return False
    need = set()
    for t in types:
        comps = [_strop(c) for c in t.full_namespace.split(".")]
        for i in range(1, len(comps) + 1):
            need.add(".".join(comps[:i]))
    if set(nss) != need:
        return False
    # consistent parent/child links; a type's file lives in the folder of its namespace node
    for n in nodes:
        for ch in n.get_nested_namespaces():
            if ch._parent is not n:
                return False
    byns = {n.full_namespace: n for n in nodes}
    for t in types:
        node = byns[".".join(_strop(c) for c in t.full_namespace.split("."))]
        if pmap[t.key()].parent.as_posix() != pathlib.Path(node.output_folder).as_posix():
            return False
    # total path lookup: from the root AND from every other node of the tree, for every type
    for n in nodes + [root]:
        for t in types:
            try:
                if n.find_output_path_for_type(t) != pmap[t.key()]:
                    return False
            except KeyError:
                return False
    return True


MAXK = int(os.environ.get("C11_K", "2"))
# executed natively as well when C11_PERM=1 (see above): every selection of <= 2 types from R.a.b / R.ab, both enumeration orders
NATIVE_SMOKE = {"tree": [([list(x) for x in sel], rev) for rev in (False, True)
                         for sel in ([(1, 0, 0)], [(3, 0, 0)], [(1, 0, 0), (3, 0, 0)], [(3, 0, 0), (1, 0, 0)])]} if PERM else {}


# ------------------------------------------------------------------------------------------------ stropping switched off by configuration
_LCTX_OFF = (LanguageContextBuilder(include_experimental_languages=True).set_target_language(LANG)
             .set_target_language_configuration_override("enable_stropping", False).create())
_L_OFF = _LCTX_OFF.get_target_language()


def generated_is_referenced_without_stropping(sel: typing.List[typing.Tuple[int, int, int]]) -> bool:
    """
    pre: 1 <= len(sel) <= 2 and (len(sel) == 1 or FIRST >= 0)
    pre: all(0 <= a < len(NSS) and 0 <= b < len(NAMES) and 0 <= c <= 1 for a, b, c in sel)
    pre: FIRST < 0 or sel[0][0] * len(NAMES) * 2 + sel[0][1] * 2 + sel[0][2] == FIRST
    post: _
    """
    # with enable_stropping: false in the language configuration the type files keep their DSDL names; whatever the spelling, the file a type
    # is generated to is the file other types refer to, distinct types get distinct files, nothing leaves the output directory.
    # (The namespace-node clauses are not asserted in this mode: Namespace.__init__ strops folder names unconditionally -- recorded as an
    # observation in DESIGN.md, no listed property speaks about it.)
    types: typing.List[Ty] = []
    for a, b, c in sel:
        t = Ty(NSS[a], NAMES[b], c, 0)
        if t not in types:
            types.append(t)
    root = build_namespace_tree(types, "/in/" + ROOTNAME, OUT, _LCTX_OFF)
    outn = pathlib.Path(OUT).as_posix()
    alltypes = list(root.get_all_datatypes())
    if sorted(t.key() for t, _ in alltypes) != sorted(t.key() for t in types):
        return False
    paths = []
    for t, p in alltypes:
        pp = p.as_posix()
        if not pp.startswith(outn + "/"):
            return False
        if IncludeGenerator.make_path(t, _L_OFF, EXT).as_posix() != pp[len(outn) + 1:]:
            return False
        paths.append(pp)
    return len(set(paths)) == len(paths)


# ------------------------------------------------------------------------------------------------ referenced == generated, real types
import pydsdl  # noqa: E402

_NS1 = "/verif/data/ns1/vt"
_REAL = pydsdl.read_namespace(_NS1, [])
_EXTS = [None, ".h", ".gen.h", ".a.b.c", ".hpp"]


def referenced_paths_are_generated_paths(ext_i: int) -> bool:
    """
    pre: 0 <= ext_i < len(_EXTS)
    post: _
    """
    # the same relative path whether a type is generated or merely referenced -- also with an output-extension override with several dots
    ext = _EXTS[ext_i]
    b = LanguageContextBuilder(include_experimental_languages=True).set_target_language(LANG)
    if ext is not None:
        b.set_target_language_extension(ext)
    lctx = b.create()
    lang = lctx.get_target_language()
    root = build_namespace_tree(_REAL, _NS1, OUT, lctx)
    outn = pathlib.Path(OUT).as_posix()
    gen = {t.full_name: p.as_posix()[len(outn) + 1:] for t, p in root.get_all_datatypes()}
    if not all(p.endswith(lang.extension) for p in gen.values()):
        return False
    tB = [t for t in _REAL if t.short_name == "B"][0]
    incs = IncludeGenerator(lang, tB, True).generate_include_filepart_list(lang.extension, True)
    refs = sorted(i.strip('"<>') for i in incs if i.strip('"<>').startswith("vt/"))
    return refs == sorted([gen["vt.A"], gen["vt.sub.C"]])
