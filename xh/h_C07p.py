"""C07 harness (python target, pickle filter): the embedded _MODEL_ blob must not depend on the clock or on where the inputs live."""
import pathlib

import xh.xhpatch  # noqa: F401
import typing

import pydsdl

import nunavut.lang.py as P

_types = pydsdl.read_namespace("/verif/data/ns1/vt", [])
_T = [t for t in _types if t.short_name == "A"][0]


class _Time:
    val: typing.Any = 1

    @staticmethod
    def time() -> typing.Any:
        return _Time.val


import gzip as _gzip  # noqa: E402

_gzip.time = _Time      # type: ignore  (the clock as seen by gzip when no mtime is given)
_Time.val = 1700000000
_BASE = P.filter_pickle(_T)


def pickle_ignores_clock(t: int) -> bool:
    """
    pre: 0 <= t < 2**31
    post: _
    """
    _Time.val = t
    return P.filter_pickle(_T) == _BASE


_REL = "vt/A.1.0.dsdl"


def pickle_ignores_input_location__kf_pickled_model_abs_path(which: int) -> bool:
    """
    pre: 0 <= which <= 1
    post: _
    """
    # KNOWN FINDING (region twin, expected to be refuted): the pickled pydsdl model carries the absolute source path
    _Time.val = 1700000000
    roots = ["/verif/data/ns1", "/somewhere/else"]
    old = _T._source_file_path
    try:
        _T._source_file_path = pathlib.Path(roots[which]) / _REL
        a = P.filter_pickle(_T)
        _T._source_file_path = pathlib.Path(roots[0]) / _REL
        b = P.filter_pickle(_T)
    finally:
        _T._source_file_path = old
    return a == b
