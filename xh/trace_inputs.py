"""Concrete helper for C08's co-simulation: run a real generation in-process and record every template file the template
loaders actually read and every DSDL definition file behind the generated types; print them as JSON."""
import json
import pathlib
import sys


def main() -> None:
    argv = sys.argv[1:]
    import nunavut.jinja.loaders as L
    from nunavut.jinja.jinja2 import FileSystemLoader, PackageLoader
    read = set()

    def wrap(cls):
        orig = cls.get_source

        def get_source(self, environment, template):
            src, fn, upd = orig(self, environment, template)
            if fn:
                read.add(str(pathlib.Path(fn).resolve()))
            return src, fn, upd
        cls.get_source = get_source
    for cls in (FileSystemLoader, PackageLoader, L.DSDLTemplateLoader):
        try:
            wrap(cls)
        except AttributeError:
            pass
    import nunavut.cli.runners as R
    dsdl = set()
    orig_build = R.build_namespace_tree

    def build(types, *a, **k):
        for t in types:
            dsdl.add(str(pathlib.Path(t.source_file_path).as_posix()))
        return orig_build(types, *a, **k)
    R.build_namespace_tree = build
    from nunavut.cli import main as nnvg_main
    sys.argv = ["nnvg"] + argv
    rc = nnvg_main()
    print("\n@@TRACE@@" + json.dumps(dict(rc=rc, templates=sorted(read), dsdl=sorted(dsdl))))


if __name__ == "__main__":
    main()
