"""C16 harness: template resolution (nearest ancestor, user over built-in, cache, enumeration order) and environment contract.

Real code: DSDLTemplateLoader.type_to_template / _type_to_template_internal / _filter_template_list_by_suffix,
DSDLCodeGenerator.filter_type_to_template, DSDLCodeGenerator._create_all_dsdl_tests,
CodeGenEnvironmentBuilder / CodeGenEnvironment.__init__ / _add_to_environment / _add_conventional_method_to_environment.
"""
import os
import typing

import pydsdl

from nunavut.jinja import DSDLCodeGenerator
from nunavut.jinja.environment import CodeGenEnvironmentBuilder
from nunavut.jinja.jinja2 import DictLoader
from nunavut.jinja.loaders import DSDLTemplateLoader
from nunavut.lang import LanguageContextBuilder


def chain(c: type) -> typing.List[type]:
    """BFS over the real __bases__: the object's inheritance chain, nearest first"""
    out: typing.List[type] = []
    q = [c]
    while q:
        x = q.pop(0)
        if x is object or x in out:
            continue
        out.append(x)
        q += list(x.__bases__)
    return out


def _all_classes() -> typing.List[type]:
    out: typing.List[type] = []

    def walk(c: type) -> None:
        if c not in out:
            out.append(c)
            for d in c.__subclasses__():
                walk(d)
    walk(pydsdl.Any)
    return sorted(out, key=lambda c: c.__name__)


_INST_CACHE: typing.Dict[type, type] = {}


def _instance(c: type) -> typing.Any:
    """an instance of (a concrete stand-in subclass of) c without running any constructor"""
    if c not in _INST_CACHE:
        sub = type(c.__name__ + "Inst", (c,), {"__str__": lambda self: type(self).__name__, "__repr__": lambda self: type(self).__name__})
        sub.__abstractmethods__ = frozenset()     # type: ignore
        _INST_CACHE[c] = sub
    return object.__new__(_INST_CACHE[c])


CLASSES = _all_classes()
BYNAME = {c.__name__: c for c in CLASSES}
Q = BYNAME[os.environ.get("C16_Q", "StructureType")]          # queried class
W = BYNAME[os.environ.get("C16_W", "ServiceType")]            # class looked up first (cache warming)
NAMES = sorted({c.__name__ for c in chain(Q) + chain(W)} - {"ABC"})      # abc.ABC is walked by the resolver but is never a template name
NB = len(NAMES)
AS_USER = os.environ.get("C16_USER", "1") == "1"      # the single template set is the user's directory (else: the built-ins)
ZSUB = os.environ.get("C16_ZSUB", "1") == "1"         # the same-stem copy lives in a sub-folder sorted after (else: before) the top level


class _FakeLoader:
    def __init__(self, names: typing.List[str]) -> None:
        self.names = names

    def list_templates(self) -> typing.List[str]:
        return list(self.names)


def _listing(bits: typing.List[bool], dup: int, sub: str) -> typing.List[str]:
    """what jinja loaders return: sorted relative paths.  bits[i]: NAME_i.j2 present; dup: index of ONE name that additionally has a
    same-stem copy in a sub-folder and a non-template sibling (-1: none)"""
    out: typing.List[str] = []
    for i, (n, b) in enumerate(zip(NAMES, bits)):
        if b:
            out.append(n + ".j2")
        if i == dup:
            out.append(sub + "/" + n + ".j2")
            out.append(n + ".txt")
    return sorted(out)


def _nearest(cls: type, avail: typing.Set[str]) -> typing.Tuple[typing.Optional[str], int]:
    for d, c in enumerate(chain(cls)):
        if c.__name__ in avail:
            return c.__name__, d
    return None, 1 << 30


def _mk_loader(user: typing.Optional[typing.List[str]], builtin: typing.Optional[typing.List[str]]) -> DSDLTemplateLoader:
    l = object.__new__(DSDLTemplateLoader)
    l._type_to_template_lookup_cache = {}
    l._fsloader = _FakeLoader(user) if user is not None else None
    l._package_loader = _FakeLoader(builtin) if builtin is not None else None
    return l


def resolution_single_set(bits: typing.List[bool], dup: int, warm: bool) -> bool:
    """
    pre: len(bits) == NB and -1 <= dup < NB and (dup < 0 or bits[dup])
    post: _
    """
    # one template set (user directories OR built-ins: what DSDLCodeGenerator uses): the template named after the nearest class in
    # the inheritance chain, else None; independent of earlier lookups and of same-stem files elsewhere in the listing
    lst = _listing(bits, dup, "zsub" if ZSUB else "Asub")
    l = _mk_loader(lst, None) if AS_USER else _mk_loader(None, lst)
    g = object.__new__(DSDLCodeGenerator)
    g._dsdl_template_loader = l
    avail = {n for n, b in zip(NAMES, bits) if b}
    if warm:
        l.type_to_template(W)
    exp, _ = _nearest(Q, avail)
    r = l.type_to_template(Q)
    if (r.name if r is not None else None) != (exp + ".j2" if exp else None):
        return False
    # the name handed to the template engine for an *instance* (what get_template() will be asked for)
    inst = _instance(Q)
    try:
        name = g.filter_type_to_template(inst)
    except RuntimeError:
        return exp is None
    if exp is None or name != exp + ".j2":
        return False
    # cache invariant: every cached class maps to the template named after it
    return all(p.stem == c.__name__ for c, p in l._type_to_template_lookup_cache.items())


def user_template_shadows_builtin_of_same_name(u: bool, b: bool, ni: int, other_u: bool, other_b: bool) -> bool:
    """
    pre: 0 <= ni < NB
    post: _
    """
    # FIND_ALL loaders (support templates): a user template takes precedence over the built-in template of the same name; a name only
    # the built-ins have is still found; a name nobody has is reported as missing.  (Type templates use ONE set -- FIND_FIRST -- so
    # mixing a nearer built-in with a farther user template, where the statement's two rules would conflict, cannot occur there.)
    from nunavut.jinja.jinja2.exceptions import TemplateNotFound
    name = NAMES[ni]
    other = NAMES[(ni + 1) % NB]
    ud = {}
    bd = {}
    if u:
        ud[name + ".j2"] = "USER " + name
    if b:
        bd[name + ".j2"] = "BUILTIN " + name
    if other_u:
        ud[other + ".j2"] = "USER " + other
    if other_b:
        bd[other + ".j2"] = "BUILTIN " + other
    l = object.__new__(DSDLTemplateLoader)
    l._type_to_template_lookup_cache = {}
    l._fsloader, l._package_loader = DictLoader(ud), DictLoader(bd)
    try:
        src = l.get_source(None, name + ".j2")[0]
    except TemplateNotFound:
        return not u and not b
    if u:
        return src == "USER " + name
    return b and src == "BUILTIN " + name


# ------------------------------------------------------------------------------------------------ instance tests
_TESTS = DSDLCodeGenerator._create_all_dsdl_tests()


class _Attr(pydsdl.Attribute):
    def __init__(self, dt: typing.Any) -> None:      # no base init: only data_type is consulted
        self._dt = dt

    @property
    def data_type(self) -> typing.Any:
        return self._dt


def instance_tests_agree(ci: int, vi: int) -> bool:
    """
    pre: 0 <= ci < len(CLASSES) and 0 <= vi < len(CLASSES)
    post: _
    """
    c, v = CLASSES[ci], CLASSES[vi]
    if not (issubclass(c, pydsdl.SerializableType) or issubclass(c, pydsdl.Attribute)):
        return True
    name = c.__name__
    low = name.lower()
    alias = low[:-4] if (len(low) > 4 and low.endswith("type")) else low[:-5] if (len(low) > 5 and low.endswith("field")) else low
    if name not in _TESTS or alias not in _TESTS:
        return False
    if issubclass(v, pydsdl.Attribute):
        # Attribute-valued arguments are tested through their data type (next block); what an Attribute-rooted test (Field, Constant,
        # PaddingField) should say about an Attribute value is ambiguous in the statement and is not asserted (see DESIGN.md, C16 note)
        return True
    inst = _instance(v)
    want = issubclass(v, c)
    if _TESTS[name](inst) != want or _TESTS[alias](inst) != want:
        return False
    if issubclass(c, pydsdl.SerializableType):
        a = _Attr(inst)
        if _TESTS[name](a) != want or _TESTS[alias](a) != want:
            return False
    return True


# ------------------------------------------------------------------------------------------------ environment contract
_LCTX = LanguageContextBuilder().set_target_language("c").create()
_PROBE = CodeGenEnvironmentBuilder(DictLoader({}), _LCTX).create()
_FILTER_NAMES = ["id", "filter_id", "upper", "zz_new", "filter_zz_new2", "full_reference_name"]
_TEST_NAMES = ["StructureType", "structure", "defined", "zz_new", "is_zz_new2", "is_structure"]
_GLOBAL_NAMES = ["ln", "options", "uses_queries", "nunavut", "now_utc", "typename_unsigned_length", "valuetoken_true", "zz_new"]
# (Jinja's own default globals -- range, dict, lipsum ... -- are not named by the documented contract and are not asserted)


def _user_filter(x: typing.Any) -> str:
    return "USER"


def _user_test(x: typing.Any) -> bool:
    return True


def additions_never_replace_silently(kind: int, ni: int, allow: bool) -> bool:
    """
    pre: 0 <= kind <= 2 and 0 <= ni < 9
    pre: (kind == 2 and ni < len(_GLOBAL_NAMES)) or (kind < 2 and ni < len(_FILTER_NAMES))
    post: _
    """
    b = CodeGenEnvironmentBuilder(DictLoader({}), _LCTX).set_allow_filter_test_or_use_query_overwrite(allow)
    if kind == 0:
        name = _FILTER_NAMES[ni]
        b.add_filters(**{name: _user_filter})
        coll, probe, item = "filters", _PROBE.filters, _user_filter
    elif kind == 1:
        name = _TEST_NAMES[ni]
        b.add_tests(**{name: _user_test})
        coll, probe, item = "tests", _PROBE.tests, _user_test
    else:
        name = _GLOBAL_NAMES[ni]
        b.add_globals(**{name: "USER"})
        coll, probe, item = "globals", _PROBE.globals, "USER"
    try:
        env = b.create()
        raised = False
    except RuntimeError:
        raised = True
    # the name under which the item lands (conventional prefixes are stripped)
    eff = name
    for p in ("filter_", "is_"):
        if kind < 2 and name.startswith(p):
            eff = name[len(p):]
    existed = eff in probe
    if raised:
        return existed or (kind == 2 and name in ("ln", "options", "uses_queries", "nunavut", "now_utc"))   # never a spurious refusal
    now = getattr(env, coll)
    mine = now.get(eff) is item or getattr(now.get(eff), "func", None) is item or now.get(eff) == item
    if kind == 2:
        # globals: a built-in or reserved name is never replaced by the user's value (refused, or the built-in value survives)
        return (not mine) if existed else mine
    if existed:
        return allow and mine      # replacing is only possible when overwriting was explicitly allowed
    return mine
