"""C15 harness: line post-processing is chunking-independent and changes only what it documents.

Real code driven: nunavut.jinja.CodeGenerator._generate_with_line_buffer / _filter_and_write_line,
nunavut._postprocessors.TrimTrailingWhitespace / LimitEmptyLines, SupportGenerator._copy_header_using_line_pps.
Oracle: the direct definition -- split the *concatenated* text into (line, terminator) pairs at "\n" / "\r\n",
apply each processor pair-wise, concatenate.  Shares no code with nunavut.
"""
import os
import typing

import nunavut.jinja
from nunavut._postprocessors import LimitEmptyLines, LinePostProcessor, TrimTrailingWhitespace
from nunavut.jinja import CodeGenerator, SupportGenerator

CR = chr(13)
LF = chr(10)
# one representative per class the processors can distinguish: letter, space, tab, CR, LF, NBSP (unicode whitespace)
SIG = "a " + chr(9) + CR + LF + chr(0xA0)
if os.environ.get("C15_SIG", "full") == "small":
    SIG = "a " + CR + LF
K = int(os.environ.get("C15_K", "2"))          # max chars per chunk
K1 = int(os.environ.get("C15_K1", "3"))        # max chars for single-chunk conditions
NMAX = int(os.environ.get("C15_NMAX", "2"))    # limiter N range upper end
NLO = int(os.environ.get("C15_NLO", "0"))      # limiter N range lower end (conditions are split by N over processes)


class Out:
    """pure-Python file object (a C-level StringIO would reject symbolic str)"""

    def __init__(self) -> None:
        self.p: typing.List[str] = []

    def write(self, x: str) -> None:
        self.p.append(x)

    def val(self) -> str:
        return "".join(self.p)


class Identity(LinePostProcessor):
    def __call__(self, line_and_lineend: typing.Tuple[str, str]) -> typing.Tuple[str, str]:
        return line_and_lineend


def real(chunks: typing.List[str], pps: typing.List[LinePostProcessor]) -> str:
    o = Out()
    CodeGenerator._generate_with_line_buffer(o, iter(chunks), pps)  # type: ignore
    return o.val()


# ---------------------------------------------------------------------------------------------- oracle
def split_lines(text: str) -> typing.List[typing.Tuple[str, str]]:
    out = []
    cur = ""
    i = 0
    n = len(text)
    while i < n:
        c = text[i]
        if c == LF:
            out.append((cur, LF))
            cur = ""
            i += 1
        elif c == CR and i + 1 < n and text[i + 1] == LF:
            out.append((cur, CR + LF))
            cur = ""
            i += 2
        else:
            cur += c
            i += 1
    if len(cur) > 0:
        out.append((cur, ""))
    return out


def o_trim(pairs):
    return [(l.rstrip(), t) for l, t in pairs]


def o_limit(pairs, n):
    res = []
    cnt = 0
    for line, t in pairs:
        cnt = cnt + 1 if len(line) == 0 else 0
        res.append(("", "") if cnt > n else (line, t))
    return res


def join(pairs) -> str:
    return "".join(l + t for l, t in pairs)


def in_sig(*ss: str) -> bool:
    return all(c in SIG for s in ss for c in s)


# ---------------------------------------------------------------------------------------------- conditions
def identity2(a: str, b: str) -> bool:
    """
    pre: len(a) <= K and len(b) <= K
    post: _
    """
    # unconstrained characters: with a processor that changes nothing the file equals the concatenated output
    return real([a, b], [Identity()]) == a + b


def identity1(a: str) -> bool:
    """
    pre: len(a) <= K1
    post: _
    """
    return real([a], [Identity()]) == a


def trim1(a: str) -> bool:
    """
    pre: len(a) <= K1 and in_sig(a)
    post: _
    """
    return real([a], [TrimTrailingWhitespace()]) == join(o_trim(split_lines(a)))


def trim2(a: str, b: str) -> bool:
    """
    pre: len(a) <= K and len(b) <= K and in_sig(a, b)
    post: _
    """
    return real([a, b], [TrimTrailingWhitespace()]) == join(o_trim(split_lines(a + b)))


def limit1(a: str, n: int) -> bool:
    """
    pre: len(a) <= K1 and in_sig(a) and NLO <= n <= NMAX
    post: _
    """
    return real([a], [LimitEmptyLines(n)]) == join(o_limit(split_lines(a), n))


def limit2(a: str, b: str, n: int) -> bool:
    """
    pre: len(a) <= K and len(b) <= K and in_sig(a, b) and NLO <= n <= NMAX
    post: _
    """
    return real([a, b], [LimitEmptyLines(n)]) == join(o_limit(split_lines(a + b), n))


def trim_limit2(a: str, b: str, n: int) -> bool:
    """
    pre: len(a) <= K and len(b) <= K and in_sig(a, b) and NLO <= n <= NMAX
    post: _
    """
    # processors are applied in list order, line by line
    return real([a, b], [TrimTrailingWhitespace(), LimitEmptyLines(n)]) == join(o_limit(o_trim(split_lines(a + b)), n))


def limit_trim2(a: str, b: str, n: int) -> bool:
    """
    pre: len(a) <= K and len(b) <= K and in_sig(a, b) and NLO <= n <= NMAX
    post: _
    """
    return real([a, b], [LimitEmptyLines(n), TrimTrailingWhitespace()]) == join(o_trim(o_limit(split_lines(a + b), n)))


def chunk3(a: str, b: str, c: str, which: int, n: int) -> bool:
    """
    pre: len(a) <= K and len(b) <= K and len(c) <= K and len(a) + len(b) + len(c) <= 4 and in_sig(a, b, c)
    pre: 0 <= which <= 1 and 0 <= n <= 1
    post: _
    """
    # three chunks (including empty ones) versus the whole text in one chunk, through the real code on both sides
    pps1 = [TrimTrailingWhitespace()] if which == 0 else [LimitEmptyLines(n)]
    pps2 = [TrimTrailingWhitespace()] if which == 0 else [LimitEmptyLines(n)]
    return real([a, b, c], pps1) == real([a + b + c], pps2)


def limiter_contract(a: str, b: str, n: int) -> bool:
    """
    pre: len(a) <= K and len(b) <= K and in_sig(a, b) and NLO <= n <= NMAX
    post: _
    """
    # stated directly (not via the oracle): never more than n consecutive empty lines; non-empty lines intact, in order
    out = split_lines(real([a, b], [LimitEmptyLines(n)]))
    run = 0
    for l, t in out:
        run = run + 1 if len(l) == 0 else 0
        if run > n:
            return False
    return [p for p in out if len(p[0]) > 0] == [p for p in split_lines(a + b) if len(p[0]) > 0]


# ---- SupportGenerator._copy_header_using_line_pps on an in-memory file system -------------------------------
_FS: typing.Dict[str, str] = {}


class _RF:
    def __init__(self, text: str) -> None:
        self.text = text

    def __enter__(self):
        return self

    def __exit__(self, *a):
        return False

    def __iter__(self):
        # text-mode iteration with universal newlines, as io.TextIOWrapper documents it
        t = self.text.replace(CR + LF, LF).replace(CR, LF)
        cur = ""
        for c in t:
            cur += c
            if c == LF:
                yield cur
                cur = ""
        if len(cur) > 0:
            yield cur


class _WF(Out):
    def __init__(self, name: str) -> None:
        super().__init__()
        self.name = name

    def __enter__(self):
        return self

    def __exit__(self, *a):
        _FS[self.name] = self.val()
        return False


def _open(name, mode="r", encoding=None):
    return _WF(name) if mode == "w" else _RF(_FS[name])


nunavut.jinja.open = _open  # type: ignore


def copy_header(res: str, which: int, n: int) -> bool:
    """
    pre: len(res) <= K1 and in_sig(res) and 0 <= which <= 1 and 0 <= n <= 1
    pre: res.endswith(LF)
    post: _
    """
    # precondition "resource ends with a newline": see DESIGN.md section 7 (unit-level note, no public path without it)
    _FS.clear()
    _FS["res"] = res
    g = object.__new__(SupportGenerator)
    g._copy_header_using_line_pps("res", "dst", [TrimTrailingWhitespace()] if which == 0 else [LimitEmptyLines(n)])
    norm = res.replace(CR + LF, LF).replace(CR, LF)
    pairs = split_lines(norm)
    exp = join(o_trim(pairs)) if which == 0 else join(o_limit(pairs, n))
    return _FS["dst"] == exp
