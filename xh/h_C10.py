"""C10 harness: per-type output ignores earlier runs, sibling types and processing order.

Allocator idiom: the process state an earlier file / run can leave behind is made SYMBOLIC and one file is generated.
Real code: CodeGenerator._generate_code -> _generate_with_line_buffer -> LimitEmptyLines / TrimTrailingWhitespace,
nunavut.lang._common.UniqueNameGenerator, DSDLCodeGenerator._generate_type / generate_all over the real C templates.
"""
import os

import xh.xhpatch  # noqa: F401  (switches off CrossHair short-circuiting, see module docstring)
import typing

import pydsdl

import nunavut
import nunavut.jinja
from nunavut._namespace import build_namespace_tree
from nunavut._postprocessors import LimitEmptyLines, TrimTrailingWhitespace
from nunavut.jinja import DSDLCodeGenerator
from nunavut.jinja.loaders import DSDLTemplateLoader
from nunavut.lang import LanguageContextBuilder
from nunavut.lang._common import UniqueNameGenerator
from xh.fakefs import FakeFS, FakePath, patch_pathlib

_orig_get_source = DSDLTemplateLoader.get_source


def _get_source(self, environment, template):
    src, fn, upd = _orig_get_source(self, environment, template)
    return src, None, upd


DSDLTemplateLoader.get_source = _get_source  # type: ignore

_FS = [FakeFS()]


def _open(name, mode="r", encoding=None, **kw):
    return _FS[0].open(name, mode, encoding, **kw)


nunavut.jinja.open = _open  # type: ignore
patch_pathlib(_FS, "/o")
SIG = "a" + chr(10)
K = int(os.environ.get("C10_K", "2"))


class _Env:
    now_utc = None


def _gen_file(pps, chunks) -> str:
    _FS[0] = FakeFS()
    g = object.__new__(DSDLCodeGenerator)
    g._env = _Env()
    g._post_processors = pps
    g._generate_code(FakePath(_FS[0], "/o/x.h"), None, iter(chunks), True)
    return _FS[0].files["/o/x.h"][0]


# ------------------------------------------------------------------------------------------ state left behind by an earlier file
def limiter_state_does_not_leak(prev: str, a: str, b: str, n: int) -> bool:
    """
    pre: len(prev) <= K and len(a) <= K and len(b) <= K and all(c in SIG for c in prev + a + b) and 0 <= n <= 1
    pre: _N_ONLY < 0 or n == _N_ONLY
    post: _
    """
    # the SAME processor objects serve every file of a run (and every run of a process): generate a file `prev`, then the file
    # under test; compare with generating the file under test first thing in a fresh process
    pps = [LimitEmptyLines(n), TrimTrailingWhitespace()]
    _gen_file(pps, [prev])
    second = _gen_file(pps, [a, b])
    fresh = _gen_file([LimitEmptyLines(n), TrimTrailingWhitespace()], [a, b])
    return second == fresh


def limiter_arbitrary_prestate(count: int, a: str, n: int) -> bool:
    """
    pre: 0 <= count <= 3 and len(a) <= K + 1 and all(c in SIG for c in a) and 0 <= n <= 1
    post: _
    """
    # inductive form: every counter value an earlier file can leave behind (a file ending in k empty lines leaves k)
    pp = LimitEmptyLines(n)
    pp._empty_line_count = count
    return _gen_file([pp], [a]) == _gen_file([LimitEmptyLines(n)], [a])


def unique_names_do_not_leak(pre_idx: int, have_key: bool, have_tok: bool) -> bool:
    """
    pre: 0 <= pre_idx <= 1000
    post: _
    """
    # arbitrary name-generator state left behind by an earlier type: a template that asks for unique names renders the same
    def template():
        u = UniqueNameGenerator.get_instance()
        yield u("k", "t", "_p", "_s") + chr(10)
        yield u("k", "t", "_p", "_s") + chr(10)
        yield u("other", "t", "", "") + chr(10)
    UniqueNameGenerator.reset()
    inst = UniqueNameGenerator.get_instance()
    if have_key:
        inst._index_map["k"] = {"t": pre_idx} if have_tok else {"zz": pre_idx}
    out = _gen_file(None, template())
    return out == "_pt0_s" + chr(10) + "_pt1_s" + chr(10) + "t0" + chr(10)


# ------------------------------------------------------------------------------------------ siblings and order, real C templates
ROOT = "/verif/data/ns1/vt"
_types = pydsdl.read_namespace(ROOT, [])
_lctx = LanguageContextBuilder().set_target_language("c").create()
_ns = build_namespace_tree(_types, ROOT, "/o", _lctx)
_G = DSDLCodeGenerator(_ns, post_processors=[TrimTrailingWhitespace(), LimitEmptyLines(1)])
_ALL = list(_G.namespace.get_all_datatypes())


def _gen_types(idx: typing.List[int]) -> typing.Dict[str, str]:
    _FS[0] = FakeFS()
    _G._env.update_nunavut_globals(*_G.language_context.get_target_language().get_support_module(), False, False)
    for i in idx:
        t, p = _ALL[i]
        _G._generate_type(t, p, False, True)
    return {k: v[0] for k, v in _FS[0].files.items()}


_BASE = _gen_types(list(range(len(_ALL))))


def subset_and_order_do_not_matter(mask: int, rot: int, rev: bool) -> bool:
    """
    pre: 1 <= mask < 2 ** len(_ALL) and 0 <= rot < len(_ALL)
    pre: _MASK_ONLY < 0 or mask == _MASK_ONLY
    post: _
    """
    idx = [i for i in range(len(_ALL)) if (mask >> i) & 1]
    k = rot % len(idx)
    idx = idx[k:] + idx[:k]
    if rev:
        idx = idx[::-1]
    out = _gen_types(idx)
    return all(out[k2] == _BASE[k2] for k2 in out) and len(out) == len(idx)


_MASK_ONLY = int(os.environ.get("C10_MASK", "-1"))
_N_ONLY = int(os.environ.get("C10_N", "-1"))


# ------------------------------------------------------------------------------------------------ earlier run with other options
_A = [i for i, (t, _) in enumerate(_ALL) if t.short_name == "A"][0]


def _gen_A_with(g, omit: bool) -> str:
    _FS[0] = FakeFS()
    g._env.update_nunavut_globals(*g.language_context.get_target_language().get_support_module(), omit, False)
    t, p = _ALL[_A]
    g._generate_type(t, p, False, True)
    return _FS[0].files[str(p)][0]


def _fresh_generator():
    return DSDLCodeGenerator(_ns, post_processors=[TrimTrailingWhitespace(), LimitEmptyLines(1)])


_BASE_OMIT = {o: _gen_A_with(_fresh_generator(), o) for o in (False, True)}     # each from a generator that never ran before
_G_REUSED = _fresh_generator()
_gen_A_with(_G_REUSED, False)       # warm its template cache at import time: compiling templates under tracing costs minutes per path


def earlier_run_with_other_options_does_not_matter(omit_first: bool, omit_second: bool) -> bool:
    """
    post: _
    """
    # one generator object, two runs with (possibly) different --omit-serialization-support: the second run's file equals the file a
    # generator that never ran before produces for the second run's options
    try:        # realised at entry: a symbolic bool consulted all over the compiled templates forks on every use
        from crosshair import deep_realize
        omit_first, omit_second = deep_realize(omit_first), deep_realize(omit_second)
    except ImportError:
        pass
    _gen_A_with(_G_REUSED, omit_first)
    return _gen_A_with(_G_REUSED, omit_second) == _BASE_OMIT[omit_second]


# ------------------------------------------------------------------------------------------------ earlier run over ANOTHER tree
ROOT_B = "/verif/data/ns1b/vt"
_types_b = pydsdl.read_namespace(ROOT_B, [])
_lctx_b = LanguageContextBuilder().set_target_language("c").create()
_ns_b = build_namespace_tree(_types_b, ROOT_B, "/o", _lctx_b)
_G_B = DSDLCodeGenerator(_ns_b, post_processors=[TrimTrailingWhitespace(), LimitEmptyLines(1)])
_ALL_B = {t.short_name: (t, p) for t, p in _G_B.namespace.get_all_datatypes()}
_B_IDX = [i for i, (t, _) in enumerate(_ALL) if t.short_name == "B"][0]


def _warm_b() -> None:
    _FS[0] = FakeFS()
    _G_B._env.update_nunavut_globals(*_G_B.language_context.get_target_language().get_support_module(), False, False)
    t, p = _ALL_B["B"]
    _G_B._generate_type(t, p, False, True)


_warm_b()                           # template cache of the second generator (see above)


def _includes(text: str) -> typing.List[str]:
    return sorted(l[len("#include <"):-1] for l in text.split(chr(10)) if l.startswith("#include <vt/") and l.endswith(">"))


def _gen_B_of_tree_b() -> str:
    _FS[0] = FakeFS()
    _G_B._env.update_nunavut_globals(*_G_B.language_context.get_target_language().get_support_module(), False, False)
    t, p = _ALL_B["B"]
    _G_B._generate_type(t, p, False, True)
    return _FS[0].files[str(p)][0]


def earlier_run_over_another_tree_does_not_matter(b_first: bool) -> bool:
    """
    post: _
    """
    # tree b holds a vt.B.1.0 of the same name, version and size that refers to OTHER nested types (sub.D instead of sub.C).  Whatever was
    # generated earlier in this process (other generator, other language context), each file refers to exactly the types ITS definition
    # refers to, and the file of tree a equals the baseline
    try:
        from crosshair import deep_realize
        b_first = deep_realize(b_first)
    except ImportError:
        pass
    if b_first:
        fb = _gen_B_of_tree_b()
        out = _gen_types([_B_IDX])
    else:
        out = _gen_types([_B_IDX])
        fb = _gen_B_of_tree_b()
    fa = list(out.values())[0]
    return _includes(fa) == ["vt/A_1_0.h", "vt/sub/C_1_0.h"] and _includes(fb) == ["vt/A_1_0.h", "vt/sub/D_1_0.h"] and fa == _BASE[list(out)[0]]


# ------------------------------------------------------------------------------------------------ text filters keep no memory
import nunavut.lang.cpp as _cpp  # noqa: E402

_LCPP = LanguageContextBuilder(include_experimental_languages=True).set_target_language("cpp").create().get_target_language()
_STYLES = ["cpp-doxygen", "cpp", "javadoc", "c", "qt"]           # the built-in comment styles ('cpp' has an empty first line)
_TEXTS = ["one", "several words that will be wrapped at the given width, twice\n\nand a second paragraph", ""]


def block_comment_keeps_no_memory(style_i: int, indent_i: int, text_i: int) -> bool:
    """
    pre: 0 <= style_i < len(_STYLES) and 0 <= indent_i <= 1 and 0 <= text_i < len(_TEXTS)
    post: _
    """
    # a documentation comment is a function of its text, style, indent and width: rendering the same comment again, with another comment
    # (same width and indent: the helpers cache per such key) rendered in between, gives the same text
    f = _cpp.filter_block_comment
    style, indent, text = _STYLES[style_i], (0, 4)[indent_i], _TEXTS[text_i]
    r1 = f(_LCPP, text, style, indent, 30)
    f(_LCPP, _TEXTS[(text_i + 1) % len(_TEXTS)], _STYLES[(style_i + 1) % len(_STYLES)], indent, 30)
    r2 = f(_LCPP, text, style, indent, 30)
    f(_LCPP, _TEXTS[(text_i + 2) % len(_TEXTS)], style, indent, 30)
    r3 = f(_LCPP, text, style, indent, 30)
    return r1 == r2 == r3


# executed natively as well (CrossHair runs functools.lru_cache uncached: cache state is invisible to it)
NATIVE_SMOKE = {
    "block_comment_keeps_no_memory": [(s, i, t) for s in range(5) for i in range(2) for t in range(3)],
    "earlier_run_over_another_tree_does_not_matter": [(True,), (False,)],
    "earlier_run_with_other_options_does_not_matter": [(False, False), (False, True), (True, False), (True, True)],
    "subset_and_order_do_not_matter": [(7, 0, False), (7, 1, True), (2, 0, False), (5, 1, False)],
}
