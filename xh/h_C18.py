"""C18 harness: generated Python data objects validate on assignment/construction; a union holds exactly one option.

Real code: the classes generated (by /repo's current nunavut, at check time) for /verif/data/ns3: pt.S.1.0, pt.U.1.0.
Symbolic: the candidate value of each integer field in windows of +-3 around both bounds of its DSDL range (the ValueError message
formats the value, which makes CrossHair enumerate it: wide ranges are not confirmable), booleans, the None/non-None pattern of
union constructor arguments.
"""
import os
import sys
import typing

sys.path.insert(0, os.environ.get("C18_PKG", "/nonexistent"))
import pt  # noqa: E402

import numpy as _np  # noqa: E402

FIELDS = {"a": (0, 255), "b": (-2048, 2047), "c": (0, 7), "d": (-(2 ** 63), 2 ** 63 - 1), "t": (0, 2 ** 17 - 1)}
# the numpy scalar type each field's annotation names (the next standard width): a value may arrive as such a scalar, and a scalar of that
# type can still be outside the DSDL range (uint12 lives in uint16)
NPTYPE = {"a": _np.uint8, "b": _np.int16, "c": _np.uint8, "d": _np.int64, "t": _np.uint32}
FIELD = os.environ.get("C18_FIELD", "b")
LO, HI = FIELDS[FIELD]


def near_bounds(v: int) -> bool:
    return (LO - 3 <= v <= LO + 3) or (HI - 3 <= v <= HI + 3) or (-1 <= v <= 1 and LO <= 0 <= HI)


def _as_given(v: int, as_np: bool) -> typing.Any:
    """the value as a Python int, or (when it fits) as a numpy scalar of the field's storage type"""
    if as_np:
        info = _np.iinfo(NPTYPE[FIELD])
        if info.min <= v <= info.max:
            return NPTYPE[FIELD](int(v))
    return v


def setter_validates(v: int, as_np: bool) -> bool:
    """
    pre: near_bounds(v)
    post: _
    """
    o = pt.S_1_0()
    before = getattr(o, FIELD)
    try:
        setattr(o, FIELD, _as_given(v, as_np))
        raised = False
    except ValueError:
        raised = True
    inr = LO <= v <= HI
    if raised:
        return (not inr) and getattr(o, FIELD) == before      # rejected rather than stored
    return inr and getattr(o, FIELD) == v


def constructor_validates(v: int, as_np: bool) -> bool:
    """
    pre: near_bounds(v)
    post: _
    """
    try:
        o = pt.S_1_0(**{FIELD: _as_given(v, as_np)})
        raised = False
    except ValueError:
        raised = True
    inr = LO <= v <= HI
    return raised == (not inr) and (raised or getattr(o, FIELD) == v)


def union_holds_exactly_one(a: typing.Optional[int], b: typing.Optional[int], has_c: bool) -> bool:
    """
    pre: (a is None or -2 <= a <= 257) and (b is None or -32770 <= b <= -32766 or 32765 <= b <= 32769)
    post: _
    """
    c = pt.S_1_0() if has_c else None
    try:
        u = pt.U_1_0(a=a, b=b, c=c)
        raised = False
    except ValueError:
        raised = True
    n = (a is not None) + (b is not None) + (c is not None)
    a_ok = a is None or 0 <= a <= 255
    b_ok = b is None or -32768 <= b <= 32767
    if n > 1 or not a_ok or not b_ok:
        return raised
    if raised:
        return False
    held = [(u.a is not None), (u.b is not None), (u.c is not None)]
    if sum(held) != 1:
        return False                      # always exactly one option
    if n == 0:
        return u.a == 0                   # documented: the first field is default-initialised and selected
    return held == [a is not None, b is not None, has_c] and (a is None or u.a == a) and (b is None or u.b == b)


def union_assignment_switches_option(first: int, v: int) -> bool:
    """
    pre: 0 <= first <= 2 and -2 <= v <= 257
    post: _
    """
    u = pt.U_1_0(a=1) if first == 0 else pt.U_1_0(b=-5) if first == 1 else pt.U_1_0(c=pt.S_1_0())
    try:
        u.a = v
        raised = False
    except ValueError:
        raised = True
    held = [(u.a is not None), (u.b is not None), (u.c is not None)]
    if sum(held) != 1:
        return False
    if raised:
        return not (0 <= v <= 255) and held == [first == 0, first == 1, first == 2]     # a rejected assignment changes nothing
    return 0 <= v <= 255 and held == [True, False, False] and u.a == v


# ------------------------------------------------------------------------------------------------ float fields (finite split)
import math  # noqa: E402

_FMAX = {"h": 65504.0, "g": 3.4028234663852886e38}
# candidate values around both bounds of each narrow float type, the next representable doubles, far outside, and the non-finite ones
_FVALS = [0.0, -0.0, 0.1, 1.0, 65504.0, 65504.00000000001, 65505.0, 65520.0, 70000.0, -65504.0, -65504.00000000001, -70000.0,
          3.4028234663852886e38, 3.4028234663852889e38, 3.5e38, 1e39, -3.4028234663852886e38, -3.4028234663852889e38, -1e39,
          1.7976931348623157e308, math.inf, -math.inf, math.nan]


def float_setter_validates(field: int, vi: int) -> bool:
    """
    pre: 0 <= field <= 1 and 0 <= vi < len(_FVALS)
    post: _
    """
    # "raises ValueError if the value is finite and outside of the permitted range": decided on the value GIVEN, not on a narrowed one
    name = "hg"[field]
    v = _FVALS[vi]
    o = pt.S_1_0()
    try:
        setattr(o, name, v)
        raised = False
    except ValueError:
        raised = True
    must_raise = math.isfinite(v) and not (-_FMAX[name] <= v <= _FMAX[name])
    if raised != must_raise:
        return False
    if raised:
        return True
    got = getattr(o, name)
    return (math.isnan(got) and math.isnan(v)) or got == v          # stored as given
