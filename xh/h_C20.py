"""C20 harness (escaping clause): text taken from DSDL definitions appears as text and can never introduce markup.

Real code: the html language's templates (type_base.j2, type_info.j2, namespace_info.j2, sidebar.j2, Namespace.j2, ...) and filters,
rendered by the real CodeGenEnvironment / DSDLCodeGenerator for the namespace in /verif/data/ns1 with the documentation text of a
type and of a field replaced by a symbolic string.
"""
import os

import xh.xhpatch  # noqa: F401  (switches off CrossHair short-circuiting, see module docstring)
import pathlib
import typing

import pydsdl

import nunavut
import nunavut.jinja
from nunavut._namespace import build_namespace_tree
from nunavut.jinja import DSDLCodeGenerator
from nunavut.jinja.loaders import DSDLTemplateLoader
from nunavut.lang import LanguageContextBuilder
from xh.fakefs import FakeFS, patch_pathlib

_orig_get_source = DSDLTemplateLoader.get_source


def _get_source(self, environment, template):
    src, fn, upd = _orig_get_source(self, environment, template)
    return src, None, upd          # filename is only used for traceback text; CrossHair would try to tokenise the .j2 file


DSDLTemplateLoader.get_source = _get_source  # type: ignore

NSDIR = os.environ.get("C20_NS", "ns1/vt")      # ns1/vt | ns4/hd (has a namespace-documentation type `_`)
ROOT = str(pathlib.Path(__file__).resolve().parent.parent / "data" / NSDIR) if "__file__" in globals() else "/verif/data/" + NSDIR
if not os.path.isdir(ROOT):
    ROOT = "/verif/data/" + NSDIR
ROOTNS = NSDIR.split("/")[-1]
_types = pydsdl.read_namespace(ROOT, [])
_FS = [FakeFS()]


def _open(name, mode="r", encoding=None, **kw):
    return _FS[0].open(name, mode, encoding, **kw)


nunavut.jinja.open = _open  # type: ignore
patch_pathlib(_FS)
_lctx = LanguageContextBuilder(include_experimental_languages=True).set_target_language("html").create()
_ns = build_namespace_tree(_types, ROOT, "/out", _lctx)
G = DSDLCodeGenerator(_ns)


def _instances_of_A() -> typing.List[typing.Any]:
    """pydsdl creates one object per *reference* to a type: collect every instance of vt.A reachable from the namespace"""
    seen: typing.List[typing.Any] = []

    def walk(t: typing.Any) -> None:
        if isinstance(t, pydsdl.CompositeType):
            if t.full_name in (ROOTNS + ".A", ROOTNS + "._") and not any(t is x for x in seen):
                seen.append(t)
            for a in t.attributes:
                walk(a.data_type)
        elif isinstance(t, pydsdl.ArrayType):
            walk(t.element_type)
    for t in _types:
        walk(t)
    return seen


_AS = _instances_of_A()
SIGMA = "<>&a" + chr(34) + chr(39)
MARK = "QQMARKQQ"
MAXLEN = int(os.environ.get("C20_MAXLEN", "2"))
ONLY_TYPE_PAGE = os.environ.get("C20_SCOPE", "type") == "type"


def gen(type_doc: str, field_doc: str, ns_doc: str = "plain") -> typing.Dict[str, str]:
    _FS[0] = FakeFS()
    for t in _AS:
        if t.short_name == "_":
            t._doc = ns_doc
            continue
        t._doc = type_doc
        t.fields_except_padding[0]._doc = field_doc
    G._env.update_nunavut_globals(*G.language_context.get_target_language().get_support_module(), False, False)
    if ONLY_TYPE_PAGE:
        for t, p in G.namespace.get_all_datatypes():
            if t.short_name == "A":
                G._generate_type(t, p, False, True)           # the type's own page (type_base.j2)
        for n, p in G.namespace.get_all_namespaces():
            if n.full_namespace == ROOTNS:
                G._generate_type(n, p, False, True)           # the namespace page (Namespace.j2 -> type_info.j2: nested and field docs)
    else:
        G.generate_all()
    return {k: v[0] for k, v in _FS[0].files.items()}


_BASE_T = gen(MARK, "plain")
_BASE_F = gen("plain", MARK)
_BASE_N = gen("plain", "plain", MARK)


def _inert(x: str, d: str) -> bool:
    """x is d rendered as text: no markup characters, every & starts a character reference, un-escaping gives d back"""
    if "<" in x or ">" in x:
        return False
    out = ""
    i = 0
    n = len(x)
    while i < n:
        c = x[i]
        if c == "&":
            j = x.find(";", i)
            if j < 0:
                return False
            ref = x[i + 1:j]
            m = {"lt": "<", "gt": ">", "amp": "&", "quot": chr(34), "#34": chr(34), "#39": chr(39), "#x27": chr(39), "apos": chr(39), "#x22": chr(34)}
            if ref not in m:
                return False
            out += m[ref]
            i = j + 1
        else:
            out += c
            i += 1
    return out == d


def _page_ok(base: str, page: str, d: str) -> bool:
    segs = base.split(MARK)
    if len(segs) < 2:
        return page == base
    if not page.startswith(segs[0]):
        return False
    rest = page[len(segs[0]):]
    for s in segs[1:]:
        if len(s) == 0:
            idx = len(rest)
        else:
            idx = rest.find(s)
            if idx < 0:
                return False
        if not _inert(rest[:idx], d):
            return False
        rest = rest[idx + len(s):]
    return len(rest) == 0


def _realise(doc: str) -> str:
    """The escaping filter is C code: a symbolic string is realised at that boundary anyway (one solver model per path).  When a template
    emits the text WITHOUT escaping, the symbolic string would instead flow into a page-sized symbolic concatenation and a single path
    no longer finishes.  Realising at entry keeps every path cheap and the enumeration of models of the precondition exhaustive."""
    try:
        from crosshair import deep_realize
        return deep_realize(doc)
    except ImportError:
        return doc


def type_doc_is_inert(doc: str) -> bool:
    """
    pre: 1 <= len(doc) <= MAXLEN and all(c in SIGMA for c in doc)
    post: _
    """
    doc = _realise(doc)
    out = gen(doc, "plain")
    return all(_page_ok(base, out[k], doc) for k, base in _BASE_T.items())


def field_doc_is_inert(doc: str) -> bool:
    """
    pre: 1 <= len(doc) <= MAXLEN and all(c in SIGMA for c in doc)
    post: _
    """
    doc = _realise(doc)
    out = gen("plain", doc)
    return all(_page_ok(base, out[k], doc) for k, base in _BASE_F.items())


# ------------------------------------------------------------------------------------------------ whole tokens
# character references and tags cannot be spelled within the 2-3 character bound above: documentation made of up to two whole TOKENS
# (raw markup characters, character references -- a filter that un-escapes would turn them into markup --, tags, plain text)
TOKENS = ["<", ">", "&", chr(34), chr(39), "a", "&lt;", "&gt;", "&amp;", "&#60;", "&lt;b&gt;", "<b>", "x y"]
FIRST_TOK = int(os.environ.get("C20_TOK", "-1"))          # split by first token over processes


def _tokdoc(i: int, j: int) -> str:
    return TOKENS[i] + (TOKENS[j] if j >= 0 else "")


def namespace_doc_tokens_are_inert(i: int, j: int) -> bool:
    """
    pre: 0 <= i < len(TOKENS) and -1 <= j < len(TOKENS) and (FIRST_TOK < 0 or i == FIRST_TOK)
    post: _
    """
    doc = _tokdoc(_realise(i), _realise(j))
    out = gen("plain", "plain", doc)
    return all(_page_ok(base, out[k], doc) for k, base in _BASE_N.items())


def type_doc_tokens_are_inert(i: int, j: int) -> bool:
    """
    pre: 0 <= i < len(TOKENS) and -1 <= j < len(TOKENS) and (FIRST_TOK < 0 or i == FIRST_TOK)
    post: _
    """
    doc = _tokdoc(_realise(i), _realise(j))
    out = gen(doc, "plain")
    return all(_page_ok(base, out[k], doc) for k, base in _BASE_T.items())


def field_doc_tokens_are_inert(i: int, j: int) -> bool:
    """
    pre: 0 <= i < len(TOKENS) and -1 <= j < len(TOKENS) and (FIRST_TOK < 0 or i == FIRST_TOK)
    post: _
    """
    doc = _tokdoc(_realise(i), _realise(j))
    out = gen("plain", doc)
    return all(_page_ok(base, out[k], doc) for k, base in _BASE_F.items())
