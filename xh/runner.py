"""E2 runner: drives CrossHair over harness modules (PEP-316 contracts around calls of the *real* nunavut code).

A harness module lives in /verif/xh/h_*.py.  Every public function whose docstring has a `post:` line is a
condition.  For each condition the runner
  * generates a *reachability twin* (same signature and preconditions, body = call the condition, return False)
    which CrossHair must REFUTE -- otherwise the preconditions are unsatisfiable or every path aborts (vacuous);
  * runs `crosshair check --report_all` on the condition in its own OS process under `timeout`;
  * maps the verdict: "Confirmed over all paths" = discharged; counterexample = candidate, re-executed natively
    (plain CPython, no tracing) before it is believed; everything else = inconclusive.

Conditions named  <name>__kf_<key>  are *region twins* of a known finding: they are EXPECTED to be refuted (and the
refutation must replay); that prints KNOWN-FINDING.  If such a twin is confirmed the defect is gone: nothing is
printed.
"""
from __future__ import annotations

import ast
import os
import pathlib
import re
import subprocess
import sys
import time
from typing import Any, Dict, List, Optional, Tuple

from lib import common

CROSSHAIR = str(common.VERIF / ".venv" / "bin" / "crosshair")


def _pp(workdir) -> str:
    """PYTHONPATH of harness subprocesses; VERIF_NUNAVUT_SRC (testing aid) puts another checkout's src/ in front of /repo/src"""
    alt = os.environ.get("VERIF_NUNAVUT_SRC")
    return (f"{alt}:" if alt else "") + f"{workdir}:{common.VERIF}"


class Cond:
    def __init__(self, module: str, func: str, timeout: float, path_timeout: Optional[float] = None,
                 params: Optional[Dict[str, str]] = None, expect: str = "confirm", key: Optional[str] = None):
        self.module, self.func, self.timeout = module, func, timeout
        self.path_timeout = path_timeout if path_timeout is not None else max(10.0, timeout / 2)
        self.params = params or {}       # exported as environment variables: harness modules read their bounds there
        self.expect = expect             # confirm | refute (vacuity twin) | known (region twin of a finding) | native (NATIVE_SMOKE only:
        #                                  conditions about cache state / environment history that tracing cannot afford; a concrete run)
        self.key = key or func
        # filled in by run
        self.verdict = None
        self.detail = ""
        self.call = None
        self.wall = 0.0

    def ident(self) -> str:
        ps = ",".join(f"{k}={v}" for k, v in sorted(self.params.items()))
        return f"{self.module}.{self.func}" + (f"[{ps}]" if ps else "")


def _twin_source(src: str) -> Tuple[str, List[str]]:
    """Append reachability twins for all contract functions; return (new source, names of functions with contracts)."""
    tree = ast.parse(src)
    out = [src, "\n\n# ---- generated reachability twins ----\n"]
    names = []
    for node in tree.body:
        if not isinstance(node, ast.FunctionDef):
            continue
        doc = ast.get_docstring(node, clean=False)
        if not doc or "post:" not in doc:
            continue
        names.append(node.name)
        args = ast.unparse(node.args)
        argnames = [a.arg for a in node.args.args]
        pres = [l.strip() for l in doc.splitlines() if l.strip().startswith("pre:")]
        raises = [l.strip() for l in doc.splitlines() if l.strip().startswith("raises:")]
        body = "\n    ".join(pres + raises + ["post: _"])
        out.append(f"def {node.name}__twin({args}) -> bool:\n    \"\"\"\n    {body}\n    \"\"\"\n"
                   f"    {node.name}({', '.join(argnames)})\n    return False\n\n")
    return "".join(out), names


def materialise(module: str, dest: pathlib.Path) -> Tuple[pathlib.Path, List[str]]:
    src_path = common.VERIF / "xh" / (module + ".py")
    src, names = _twin_source(src_path.read_text())
    p = dest / (module + ".py")
    p.write_text(src)
    return p, names


_RX_ERR = re.compile(r"^(.*?):(\d+): error: (.*)$")
_RX_INFO = re.compile(r"^(.*?):(\d+): info: (.*)$")


def _run_one(args) -> Dict[str, Any]:
    workdir, module, func, timeout, path_timeout, params = args
    # Budgets are upper bounds, never part of a verdict: a confirmation needs every path explored.  They are stretched (default x2.5) so that a
    # loaded or slower machine does not turn a condition that holds into "Not confirmed"; measured walls are recorded in the evidence.
    scale = float(os.environ.get("VERIF_TIMEOUT_SCALE", "2.5"))
    timeout, path_timeout = timeout * scale, (path_timeout * scale if path_timeout else path_timeout)
    env = dict(os.environ)
    env.update(params)
    env["PYTHONPATH"] = _pp(workdir)
    env["PYTHONHASHSEED"] = "0"
    env["VERIF_UNDER_CROSSHAIR"] = "1"
    # only read-only directory-enumeration events are unblocked (harness modules parse DSDL namespaces at import time);
    # every mutating event stays blocked: harnesses write to the in-memory FakeFS
    cmd = ["timeout", "-k", "5", str(int(4 * timeout + 120)), CROSSHAIR, "check", "--report_all",
           "--unblock", "pathlib.Path.rglob", "pathlib.Path.glob", "pathlib.Path.walk", "os.listdir", "os.scandir", "os.walk", "glob.glob", "glob.glob/2",
           "--per_condition_timeout", str(timeout), "--per_path_timeout", str(path_timeout), f"{module}.{func}"]
    t = time.time()
    p = subprocess.run(cmd, cwd=workdir, env=env, stdout=subprocess.PIPE, stderr=subprocess.PIPE, text=True)
    wall = time.time() - t
    verdict, detail, call = "inconclusive", "", None
    lines = [l for l in p.stdout.splitlines() if l.strip()]
    for l in lines:
        m = _RX_ERR.match(l)
        if m:
            verdict, detail = "refuted", m.group(3)
            mm = re.search(r"when calling (.*?)(?: \(which (?:returns|raises) .*\))?$", m.group(3))
            if mm:
                call = mm.group(1)
            break
        m = _RX_INFO.match(l)
        if m:
            msg = m.group(3)
            if msg.startswith("Confirmed over all paths"):
                verdict, detail = "confirmed", msg
            else:
                verdict, detail = "inconclusive", msg
    if verdict == "inconclusive" and not detail:
        detail = f"rc={p.returncode} stdout={p.stdout[-300:]!r} stderr={p.stderr[-600:]!r}"
    return dict(verdict=verdict, detail=detail, call=call, wall=wall, rc=p.returncode)


def replay_native(workdir: pathlib.Path, module: str, call: str, params: Dict[str, str]) -> Tuple[bool, str]:
    """Re-execute the counterexample call with plain CPython.  Reproduced iff it returns False or raises."""
    code = (
        "import sys, importlib\n"
        f"m = importlib.import_module({module!r})\n"
        "ns = dict(vars(m))\n"
        "try:\n"
        f"    r = eval({call!r}, ns)\n"
        "except BaseException as e:\n"
        "    print('RAISED', type(e).__name__, e); sys.exit(10)\n"
        "print('RETURNED', repr(r)); sys.exit(11 if r is False else 0)\n"
    )
    env = dict(os.environ)
    env.update(params)
    env["PYTHONPATH"] = _pp(workdir)
    env.pop("VERIF_UNDER_CROSSHAIR", None)
    p = subprocess.run([common.PY, "-c", code], cwd=workdir, env=env, stdout=subprocess.PIPE, stderr=subprocess.STDOUT, text=True)
    return p.returncode in (10, 11), p.stdout.strip()[-500:]


def _native_smoke(report: common.Report, wd: pathlib.Path, conds: List[Cond]) -> None:
    """CrossHair replaces functools.lru_cache by an uncached stand-in, so state kept in caches is invisible to it.  Harness modules may
    declare  NATIVE_SMOKE = {condition name: [argument tuples]}  (finite argument spaces of cache-related conditions): those calls are
    executed with plain CPython; a False/raise is a concretely demonstrated counterexample."""
    seen = set()
    for c in conds:
        if (c.module, c.func, tuple(sorted(c.params.items()))) in seen:
            continue
        seen.add((c.module, c.func, tuple(sorted(c.params.items()))))
        code = (f"import importlib, json\nm = importlib.import_module({c.module!r})\n"
                f"print('@@' + json.dumps([list(a) for a in getattr(m, 'NATIVE_SMOKE', {{}}).get({c.func!r}, [])]))\n")
        env = dict(os.environ)
        env.update(c.params)
        env["PYTHONPATH"] = _pp(wd)
        p = subprocess.run([common.PY, "-c", code], cwd=wd, env=env, stdout=subprocess.PIPE, stderr=subprocess.PIPE, text=True)
        line = [l for l in p.stdout.splitlines() if l.startswith("@@")]
        if not line:
            continue
        import json
        n = 0
        for args in json.loads(line[0][2:]):
            call = f"{c.func}({', '.join(repr(a) for a in args)})"
            ok, out = replay_native(wd, c.module, call, c.params)
            n += 1
            if ok:     # returned False or raised
                _handle_cex(report, wd, c, dict(call=call, detail=f"native run (no tracing): {call} -> {out[:120]}"))
        if n:
            report.extra["native_smoke_runs"] = report.extra.get("native_smoke_runs", 0) + n
        if c.expect == "native":
            if n:
                report.discharged(1, key=c.ident() + ":native", sample=dict(condition=c.ident(), verdict=f"{n} native calls over the finite argument space, all true (concrete run, no solver)"))
            else:
                report.unknown(c.ident(), "native-only condition without NATIVE_SMOKE entries")


def run_conditions(report: common.Report, conds: List[Cond], jobs: Optional[int] = None) -> None:
    """Run all conditions (and their reachability twins) in parallel and record verdicts in the report."""
    with common.scratch("nvxh_") as wd:
        mods = sorted({c.module for c in conds})
        for m in mods:
            materialise(m, wd)
        _native_smoke(report, wd, conds)
        # schedule: twins first (cheap), then conditions sorted by decreasing budget
        work: List[Tuple[Cond, bool]] = []
        for c in conds:
            if c.expect == "native":
                continue
            work.append((c, False))
            if c.expect == "confirm":
                work.append((c, True))
        work.sort(key=lambda cw: (-cw[0].timeout if not cw[1] else -1e9))
        args = []
        for c, twin in work:
            if twin:
                args.append((str(wd), c.module, c.func + "__twin", min(c.timeout, 120.0), min(c.path_timeout, 60.0), c.params))
            else:
                args.append((str(wd), c.module, c.func, c.timeout, c.path_timeout, c.params))
        results = common.pmap(_run_one, args, jobs)
        twin_ok: Dict[str, Tuple[bool, str]] = {}
        for (c, twin), r in zip(work, results):
            if twin:
                twin_ok[c.ident()] = (r["verdict"] == "refuted", r["detail"])
        for (c, twin), r in zip(work, results):
            if twin:
                continue
            c.verdict, c.detail, c.call, c.wall = r["verdict"], r["detail"], r["call"], r["wall"]
            report.solver_s += r["wall"]
            ident = c.ident()
            report.extra.setdefault("condition_walls_s", {})[ident] = dict(wall=round(r["wall"], 1), per_condition_timeout=c.timeout, verdict=r["verdict"])
            if c.expect == "confirm":
                ok, tdetail = twin_ok.get(ident, (False, "no twin"))
                report.vacuity[ident] = "twin refuted (reachable)" if ok else f"TWIN NOT REFUTED: {tdetail}"
                if r["verdict"] == "confirmed":
                    if not ok:
                        report.unknown(ident, f"condition confirmed but its reachability twin was not refuted ({tdetail}): vacuous")
                    else:
                        report.discharged(1, key=ident, sample=dict(condition=ident, verdict="Confirmed over all paths", wall_s=round(r["wall"], 1)))
                elif r["verdict"] == "refuted":
                    _handle_cex(report, wd, c, r)
                else:
                    report.unknown(ident, r["detail"])
            elif c.expect == "known":
                if r["verdict"] == "refuted":
                    _handle_cex(report, wd, c, r)
                elif r["verdict"] == "confirmed":
                    report.discharged(1, key=ident, sample=dict(condition=ident, verdict="region twin confirmed: listed defect no longer present"))
                else:
                    report.unknown(ident, r["detail"])
            elif c.expect == "refute":
                if r["verdict"] == "refuted":
                    report.discharged(1, key=ident, sample=dict(condition=ident, verdict="refuted as expected (witness)"))
                else:
                    report.unknown(ident, f"expected a witness, got {r['verdict']}: {r['detail']}")


def _handle_cex(report: common.Report, wd: pathlib.Path, c: Cond, r: Dict[str, Any]) -> None:
    ident = c.ident()
    if not r["call"]:
        report.unknown(ident, f"counterexample without a parsable call: {r['detail']}")
        return
    ok, out = replay_native(wd, c.module, r["call"], c.params)
    rd = common.replay_dir(report.prop, dict(c=ident, call=r["call"]))
    src = (wd / (c.module + ".py")).read_text()
    (rd / (c.module + ".py")).write_text(src)
    envs = " ".join(f"{k}={v}" for k, v in c.params.items())
    (rd / "replay.sh").write_text(
        "#!/bin/bash\n# native replay of a CrossHair counterexample (exit 10/11 = reproduced)\n"
        f"cd \"$(dirname \"$0\")\" && {envs} PYTHONPATH=.:{common.VERIF} {common.PY} -c "
        f"\"import {c.module} as m; print(eval({r['call']!r}, vars(m)))\"\n")
    os.chmod(rd / "replay.sh", 0o755)
    (rd / "counterexample.txt").write_text(f"{ident}\n{r['detail']}\nnative replay: {out}\n")
    report.counterexample(c.key, f"{ident}: {r['detail']} [native: {out[:160]}]", str(rd), ok)
