"""Shared plumbing for all checks: exit codes, evidence files, known findings, scratch dirs, parallel map."""
from __future__ import annotations

import contextlib
import hashlib
import json
import os
import pathlib
import shutil
import sys
import tempfile
import time
from typing import Any, Callable, Dict, Iterable, List, Optional, Tuple

VERIF = pathlib.Path(__file__).resolve().parent.parent
REPO = pathlib.Path(os.environ.get("VERIF_REPO", "/repo"))
EVIDENCE_DIR = pathlib.Path(os.environ.get("VERIF_EVIDENCE_DIR", str(VERIF / "evidence")))      # override: testing aid for parallel seed runs
REPLAY_DIR = pathlib.Path(os.environ.get("VERIF_REPLAY_DIR", str(VERIF / "replays")))
PY = str(VERIF / ".venv" / "bin" / "python")

EXIT_OK = 0            # all queries discharged (KNOWN-FINDING lines allowed)
EXIT_VIOLATION = 1     # a replayed counterexample that is not a listed finding
EXIT_INCONCLUSIVE = 2  # budget / unsupported construct / vacuity guard failed
EXIT_HARNESS = 3       # solver counterexample did not reproduce natively: bug in /verif

NCPU = int(os.environ.get("VERIF_JOBS", str(os.cpu_count() or 4)))


def seed() -> int:
    try:
        return int(os.environ.get("VERIF_SEED", "0"))
    except ValueError:
        return 0


@contextlib.contextmanager
def scratch(prefix: str = "nvverif_"):
    d = tempfile.mkdtemp(prefix=prefix)
    try:
        yield pathlib.Path(d)
    finally:
        shutil.rmtree(d, ignore_errors=True)


# --------------------------------------------------------------------------------------------- known findings
class Finding:
    def __init__(self, kind: str, prop: str, key: str, text: str):
        self.kind, self.prop, self.key, self.text = kind, prop, key, text


def load_findings() -> List[Finding]:
    out: List[Finding] = []
    p = VERIF / "known_findings.txt"
    if not p.exists():
        return out
    for line in p.read_text().splitlines():
        line = line.strip()
        if not line or line.startswith("#"):
            continue
        kind, _, rest = line.partition(":")
        kind = kind.strip()
        toks = rest.split()
        prop = next((t.split("=", 1)[1] for t in toks if t.startswith("property=")), "")
        key = next((t.split("=", 1)[1] for t in toks if t.startswith("key=")), "")
        out.append(Finding(kind, prop, key, rest.strip()))
    return out


def finding_for(prop: str, key: str) -> Optional[Finding]:
    """Return the `finding:` entry with exactly this (property, key); `fixed:` entries never match."""
    for f in load_findings():
        if f.kind == "finding" and f.prop == prop and f.key == key:
            return f
    return None


# --------------------------------------------------------------------------------------------- result collection
class Report:
    """Collects query verdicts of one check run and turns them into evidence + exit code."""

    def __init__(self, prop: str, tier: str, level: str):
        self.prop, self.tier, self.level = prop, tier, level
        self.t0 = time.time()
        self.queries = 0
        self.unsat = 0          # discharged
        self.sat_replayed: List[Dict[str, Any]] = []      # genuine, replayed counterexamples
        self.sat_known: List[Dict[str, Any]] = []         # replayed, listed as known finding
        self.sat_unreplayed: List[Dict[str, Any]] = []    # did not reproduce natively -> harness bug
        self.inconclusive: List[Dict[str, Any]] = []
        self.notes: List[str] = []
        self.samples: List[Any] = []
        self.functions: List[str] = []
        self.bounds: Dict[str, Any] = {}
        self.assumptions: List[str] = []
        self.not_covered: List[str] = []
        self.extra: Dict[str, Any] = {}
        self.solver_s = 0.0
        self.paths = 0
        self.distinct: set = set()
        self.vacuity: Dict[str, str] = {}

    # -- recording
    def discharged(self, n: int = 1, key: Any = None, sample: Any = None):
        self.queries += n
        self.unsat += n
        if key is not None:
            self.distinct.add(key if isinstance(key, (str, int, tuple)) else json.dumps(key, sort_keys=True, default=str))
        if sample is not None and len(self.samples) < 12:
            self.samples.append(sample)

    def counterexample(self, key: str, what: str, replay_path: Optional[str], reproduced: bool, detail: Any = None):
        self.queries += 1
        rec = dict(key=key, what=what, replay=replay_path, detail=detail)
        if not reproduced:
            self.sat_unreplayed.append(rec)
            return
        f = finding_for(self.prop, key)
        if f is not None:
            self.sat_known.append(rec)
            print(f"KNOWN-FINDING: property={self.prop} key={key} {what}", flush=True)
        else:
            self.sat_replayed.append(rec)
            print(f"VIOLATION property={self.prop} replay={replay_path}", flush=True)
            print(f"  what: {what}", flush=True)

    def unknown(self, key: str, why: str):
        self.queries += 1
        self.inconclusive.append(dict(key=key, why=why))
        print(f"INCONCLUSIVE property={self.prop} {key}: {why}", flush=True)

    def note(self, s: str):
        self.notes.append(s)

    # -- output
    def exit_code(self) -> int:
        if self.sat_replayed:
            return EXIT_VIOLATION
        if self.sat_unreplayed:
            return EXIT_HARNESS
        if self.inconclusive:
            return EXIT_INCONCLUSIVE
        return EXIT_OK

    def write(self) -> int:
        EVIDENCE_DIR.mkdir(exist_ok=True)
        nd = len(self.distinct)
        cov: Dict[str, Any] = dict(
            evaluations=max(self.queries, 1),
            distinct_nontrivial=nd,
            rule=self.extra.pop("rule", "one evaluation = one solver query (or one CrossHair condition) over the real code; "
                                        "distinct = distinct (unit, shape/bound) keys whose query had at least one free symbolic input"),
            samples=self.samples or ["(no query was discharged)"],
            obligations=self.queries,
            discharged=self.unsat + len(self.sat_known),
            queries=dict(total=self.queries, unsat_or_confirmed=self.unsat, sat_known_finding=len(self.sat_known),
                         sat_violation=len(self.sat_replayed), sat_not_reproduced=len(self.sat_unreplayed),
                         inconclusive=len(self.inconclusive)),
            paths_explored=self.paths,
            solver_wall_s=round(self.solver_s, 2),
            functions_encoded=self.functions,
            bounds=self.bounds,
            not_covered=self.not_covered,
            known_findings_hit=[r["key"] + ": " + r["what"] for r in self.sat_known],
            violations_detail=self.sat_replayed[:20],
            not_reproduced_detail=self.sat_unreplayed[:20],
            inconclusive_detail=self.inconclusive[:40],
            notes=self.notes[:60],
            vacuity_guards=self.vacuity,
            exhaustive=False,
            explanation=self.extra.pop("explanation", ""),
            checker_cmd=self.extra.pop("checker_cmd", f"./check {self.prop} {self.tier}"),
            trusted_base=self.extra.pop("trusted_base", []),
        )
        cov.update(self.extra)
        ev = dict(property_id=self.prop, tier=self.tier, seed=seed(), level=self.level, coverage=cov,
                  assumptions=self.assumptions, wall_s=round(time.time() - self.t0, 2),
                  violations=len(self.sat_replayed))
        (EVIDENCE_DIR / f"{self.prop}.json").write_text(json.dumps(ev, indent=1, default=str) + "\n")
        rc = self.exit_code()
        print(f"[{self.prop} {self.tier}] queries={self.queries} discharged={self.unsat} known={len(self.sat_known)} "
              f"violations={len(self.sat_replayed)} not-reproduced={len(self.sat_unreplayed)} inconclusive={len(self.inconclusive)} "
              f"wall={ev['wall_s']}s exit={rc}", flush=True)
        return rc


def replay_dir(prop: str, payload: Any) -> pathlib.Path:
    h = hashlib.sha1(json.dumps(payload, sort_keys=True, default=str).encode()).hexdigest()[:12]
    d = REPLAY_DIR / prop / h
    d.mkdir(parents=True, exist_ok=True)
    return d


# --------------------------------------------------------------------------------------------- process pool
def pmap(fn: Callable, items: Iterable, jobs: Optional[int] = None, chunksize: int = 1) -> List:
    """Ordered parallel map in forked worker processes (z3 contexts are per process)."""
    import multiprocessing as mp
    items = list(items)
    jobs = min(jobs or NCPU, max(1, len(items)))
    if jobs <= 1:
        return [fn(x) for x in items]
    ctx = mp.get_context("fork")
    with ctx.Pool(jobs) as pool:
        return pool.map(fn, items, chunksize)
