"""E4 drivers: the real generated Python `_serialize_` / `_deserialize_` methods and the real generated `nunavut_support` module executed
by pysym over symbolic values; one z3 query per path (and wire shape) against the reference model llsym/dsdlspec.py; native replay of
every counterexample with the real numpy wheel in a subprocess.

Value domain (what a user of the generated classes can build through their public constructors and setters):
  scalar integers within the DSDL range (the setters reject anything else), booleans, Python floats that are non-finite or within the range
  of the declared format (setter contract); array elements anywhere in the range of the numpy element type (uint12 lives in uint16: the
  cast mode matters), float array elements any bit pattern; variable-length arrays of every length 0..capacity and unions holding every
  option: these *shapes* are enumerated, the values are symbolic."""
from __future__ import annotations

import builtins
import importlib
import itertools
import json
import os
import pathlib
import subprocess
import sys
import time
import typing

import pydsdl
import z3

from lib import common
from llsym import dsdlspec as D
from pysym import npshim, sym
from pysym.sym import SymBool, SymFloat, SymInt, Unsupported

W = sym.W
QUERY_TIMEOUT_MS = 150000
SHAPE_LIMIT = 400


class QueryLog:
    def __init__(self) -> None:
        self.unsat = 0
        self.paths = 0
        self.cex: typing.List[dict] = []
        self.unknown: typing.List[str] = []
        self.notes: typing.List[str] = []
        self.solver_s = 0.0


# ---------------------------------------------------------------------------------------------- loading generated code under the shim
class PyUnit:
    """the generated Python package of the corpus, imported in this process under the numpy shim"""

    def __init__(self, gen: pathlib.Path):
        self.gen = gen
        npshim.install()
        for k in [k for k in sys.modules if k == "vt" or k.startswith("vt.") or k == "nunavut_support"]:
            del sys.modules[k]
        sys.path.insert(0, str(gen))
        import functools
        real_lru, real_cache = functools.lru_cache, getattr(functools, "cache", None)

        def _transparent_lru(*a: typing.Any, **k: typing.Any) -> typing.Any:
            # memoisation is transparent to a per-call symbolic run (symbolic values are not hashable); what a cache REMEMBERS between
            # calls is the subject of the concrete history co-simulation (history_cosimulate), not of these queries
            if len(a) == 1 and callable(a[0]) and not k:
                return a[0]
            return lambda f: f
        functools.lru_cache = _transparent_lru  # type: ignore
        if real_cache is not None:
            functools.cache = _transparent_lru  # type: ignore
        try:
            self.ns = importlib.import_module("nunavut_support")
            sym.inject(self.ns, dict(struct=npshim.StructShim))
            self.pkg = importlib.import_module("vt") if (gen / "vt").is_dir() else None
            for name, mod in list(sys.modules.items()):
                if name.startswith("vt.") and mod is not None:
                    sym.inject(mod)
        finally:
            sys.path.remove(str(gen))
            functools.lru_cache = real_lru  # type: ignore
            if real_cache is not None:
                functools.cache = real_cache  # type: ignore

    def cls(self, t: pydsdl.CompositeType) -> typing.Any:
        t = D.inner(t)
        if t.has_parent_service:
            parent, child = t.name_components[-2:]
            return getattr(getattr(self.pkg, f"{parent}_{t.version.major}_{t.version.minor}"), child)
        return getattr(self.pkg, f"{t.short_name}_{t.version.major}_{t.version.minor}")


# ---------------------------------------------------------------------------------------------- plans: symbolic values of a type
def np_dtype_of(t: pydsdl.PrimitiveType) -> npshim.DType:
    if isinstance(t, pydsdl.BooleanType):
        return npshim.bool_
    if isinstance(t, pydsdl.FloatType):
        return {16: npshim.float16, 32: npshim.float32, 64: npshim.float64}[t.bit_length]
    w = D.storage_bits(t)
    return getattr(npshim, ("int" if isinstance(t, pydsdl.SignedIntegerType) else "uint") + str(w))


def shapes(t: pydsdl.SerializableType) -> typing.Iterator[typing.Any]:
    """every shape of a value of t: array lengths and union options (values stay symbolic)"""
    if isinstance(t, pydsdl.PrimitiveType):
        yield None
    elif isinstance(t, pydsdl.ArrayType):
        var = isinstance(t, pydsdl.VariableLengthArrayType)
        for n in (range(t.capacity + 1) if var else [t.capacity]):
            if isinstance(t.element_type, pydsdl.PrimitiveType):
                yield ("n", n)
            else:
                for combo in itertools.product(*[list(shapes(t.element_type)) for _ in range(n)]):
                    yield ("els", list(combo))
    else:
        it = D.inner(t)
        if isinstance(it, pydsdl.UnionType):
            for i, f in enumerate(it.fields):
                for s in shapes(f.data_type):
                    yield ("opt", i, s)
        else:
            fs = list(it.fields_except_padding)
            for combo in itertools.product(*[list(shapes(f.data_type)) for f in fs]):
                yield ("fields", list(combo))


class Plan:
    """symbolic value of one shape: z3 variables, their preconditions, the dsdlspec value tree, and a builder of the Python object"""

    def __init__(self) -> None:
        self.pre: typing.List[typing.Any] = []
        self.vars: typing.List[typing.Tuple[str, typing.Any]] = []
        self.k = 0

    def fresh_bv(self, bits: int, hint: str) -> typing.Any:
        self.k += 1
        v = z3.BitVec(f"v{self.k}_{hint}", bits)
        self.vars.append((f"v{self.k}_{hint}", v))
        return v

    def fresh_fp(self, hint: str) -> typing.Any:
        self.k += 1
        v = z3.FP(f"f{self.k}_{hint}", z3.Float64())
        self.vars.append((f"f{self.k}_{hint}", v))
        return v


def _ext(bv: typing.Any, signed: bool) -> typing.Any:
    n = bv.size()
    return z3.SignExt(W - n, bv) if signed else z3.ZeroExt(W - n, bv)


def make(plan: Plan, t: pydsdl.SerializableType, shape: typing.Any, hint: str) -> typing.Tuple[typing.Any, typing.Callable[["PyUnit"], typing.Any]]:
    """returns (dsdlspec Val, builder(unit) -> Python value)"""
    if isinstance(t, pydsdl.BooleanType):
        b = plan.fresh_bv(8, hint)
        plan.pre.append(z3.ULE(b, 1))
        return ("prim", t, b), (lambda u, b=b: sym.mk_bool(b == 1))
    if isinstance(t, pydsdl.FloatType):
        d = plan.fresh_fp(hint)
        if t.bit_length < 64:
            mx = {16: 65504.0, 32: 3.4028234663852886e38}[t.bit_length]
            plan.pre.append(z3.Or(z3.fpIsNaN(d), z3.fpIsInf(d), z3.fpLEQ(z3.fpAbs(d), z3.FPVal(mx, z3.Float64()))))       # setter contract
        return ("prim", t, ("pyfloat", d)), (lambda u, d=d: SymFloat(d))
    if isinstance(t, pydsdl.IntegerType):
        sw = D.storage_bits(t)
        signed = isinstance(t, pydsdl.SignedIntegerType)
        v = plan.fresh_bv(sw, hint)
        if t.bit_length < sw:                                   # scalar setters reject values outside the DSDL range
            if signed:
                plan.pre += [v >= -(1 << (t.bit_length - 1)), v <= (1 << (t.bit_length - 1)) - 1]
            else:
                plan.pre.append(z3.ULE(v, (1 << t.bit_length) - 1))
        return ("prim", t, v), (lambda u, v=v, s=signed, sw=sw: sym.mk_int(_ext(v, s), sw + 1))
    if isinstance(t, pydsdl.ArrayType):
        var = isinstance(t, pydsdl.VariableLengthArrayType)
        et = t.element_type
        if isinstance(et, pydsdl.PrimitiveType):
            n = shape[1]
            dt = np_dtype_of(et)
            cnt = n if var else None
            if isinstance(et, pydsdl.BooleanType):
                bits = [plan.fresh_bv(1, f"{hint}{i}") for i in range(n)]
                packed = []
                for i in range(0, max(t.capacity, 1), 8):
                    grp = bits[i:i + 8]
                    grp = grp + [z3.BitVecVal(0, 1)] * (8 - len(grp))
                    packed.append(z3.Concat(*reversed(grp)))
                return ("bits", t, packed, cnt), (lambda u, bits=bits, dt=dt: npshim.ndarray([sym.mk_bool(b == 1) for b in bits], dt))
            if isinstance(et, pydsdl.FloatType):
                cells = [plan.fresh_bv(et.bit_length, f"{hint}{i}") for i in range(n)]
                return (("arr", t, [("prim", et, ("fbits", c)) for c in cells], cnt),
                        (lambda u, cells=cells, dt=dt: npshim.ndarray([("fbits", c) for c in cells], dt)))
            sw = D.storage_bits(et)
            signed = isinstance(et, pydsdl.SignedIntegerType)
            cells = [plan.fresh_bv(sw, f"{hint}{i}") for i in range(n)]          # any value of the numpy element type
            return (("arr", t, [("prim", et, c) for c in cells], cnt),
                    (lambda u, cells=cells, dt=dt, s=signed, sw=sw: npshim.ndarray([sym.mk_int(_ext(c, s), sw + 1) for c in cells], dt)))
        subs = [make(plan, et, s, f"{hint}{i}_") for i, s in enumerate(shape[1])]
        cnt = len(subs) if var else None
        return (("arr", t, [v for v, _ in subs], cnt),
                (lambda u, subs=subs: npshim.ndarray([b(u) for _, b in subs], npshim.object_)))
    it = D.inner(t)
    if isinstance(it, pydsdl.UnionType):
        _, idx, sub = shape
        f = it.fields[idx]
        v, b = make(plan, f.data_type, sub, f"{hint}{f.name}_")
        opts: typing.List[typing.Any] = [(g.name, None) for g in it.fields]
        opts[idx] = (f.name, v)
        return ("union", t, idx, opts), (lambda u, t=t, f=f, b=b: u.cls(t)(**{f.name: b(u)}))
    fs = list(it.fields_except_padding)
    subs2 = [(f.name,) + make(plan, f.data_type, s, f"{hint}{f.name}_") for f, s in zip(fs, shape[1])]
    return (("struct", t, [(n, v) for n, v, _ in subs2]),
            (lambda u, t=t, subs2=subs2: u.cls(t)(**{n: b(u) for n, _, b in subs2})))


# ---------------------------------------------------------------------------------------------- queries
def _solver() -> z3.Solver:
    s = z3.Solver()
    s.set("timeout", QUERY_TIMEOUT_MS)
    return s


def _prove(solver: z3.Solver, pcs: typing.Sequence[typing.Any], goal: typing.Any, log: QueryLog) -> typing.Optional[z3.ModelRef]:
    t = time.time()
    solver.push()
    for c in pcs:
        solver.add(c)
    solver.add(z3.Not(goal) if not isinstance(goal, builtins.bool) else z3.BoolVal(not goal))
    r = solver.check()
    m = solver.model() if r == z3.sat else None
    solver.pop()
    log.solver_s += time.time() - t
    if r == z3.unsat:
        log.unsat += 1
        return None
    if r == z3.sat:
        return m
    log.unknown.append("solver unknown")
    return None


def _fp_vars(term: typing.Any, cache: dict) -> frozenset:
    """names of the floating-point constants a term mentions"""
    key = term.get_id()
    if key in cache:
        return cache[key]
    if z3.is_const(term):
        r = frozenset([term.decl().name()]) if (z3.is_fp(term) and term.decl().kind() == z3.Z3_OP_UNINTERPRETED) else frozenset()
    else:
        r = frozenset().union(*[_fp_vars(c, cache) for c in term.children()]) if term.num_args() else frozenset()
    cache[key] = r
    return r


def _prove_split(solver: z3.Solver, pcs: typing.Sequence[typing.Any], conj: typing.Sequence[typing.Any], log: QueryLog) -> typing.Optional[z3.ModelRef]:
    """prove pcs => AND(conj), one query per group of conjuncts that mention the same floating-point inputs (a conjunction over several
    independent float conversions is far harder for the solver than its parts); returns a model of the first refuted group"""
    cache: dict = {}
    groups: typing.Dict[frozenset, list] = {}
    for c in conj:
        if isinstance(c, builtins.bool):
            if not c:
                return _prove(solver, pcs, False, log)
            continue
        groups.setdefault(_fp_vars(c, cache), []).append(c)
    if not groups:
        return _prove(solver, pcs, True, log)
    for fpv, cs in sorted(groups.items(), key=lambda kv: len(kv[0])):
        goal = z3.And(*cs) if len(cs) > 1 else cs[0]
        if fpv:
            # slice: only the premises connected to the goal through shared inputs (the others are satisfiable on their own and share no
            # variable, so the verdict is the same); identical sliced queries recur on paths that differ in other fields: cached
            sl = sym.slice_pc(pcs, goal)
            key = (frozenset(c.get_id() for c in sl), goal.get_id())
            sym.term_vars(goal)          # keeps the goal term alive: AST ids are only unique among live terms
            if key in _SLICE_CACHE:
                log.unsat += 1
                log.notes_cached = getattr(log, "notes_cached", 0) + 1
                continue
            before = len(log.unknown)
            m = _prove(solver, sl, goal, log)
            if m is None and len(log.unknown) == before:
                _SLICE_CACHE.add(key)
                continue
            del log.unknown[before:]
        m = _prove(solver, pcs, goal, log)
        if m is not None:
            return m
    return None


_SLICE_CACHE: set = set()


def _all_vars(term: typing.Any, cache: dict) -> frozenset:
    key = term.get_id()
    if key in cache:
        return cache[key]
    if z3.is_const(term):
        r = frozenset([term.decl().name()]) if term.decl().kind() == z3.Z3_OP_UNINTERPRETED else frozenset()
    else:
        r = frozenset().union(*[_all_vars(c, cache) for c in term.children()]) if term.num_args() else frozenset()
    cache[key] = r
    return r


def _ieee_subterms(term: typing.Any, acc: dict, seen: set) -> None:
    if term.get_id() in seen:
        return
    seen.add(term.get_id())
    if z3.is_app(term):
        if term.decl().kind() == z3.Z3_OP_FPA_TO_IEEE_BV:
            acc[term.get_id()] = term
            return
        for c in term.children():
            _ieee_subterms(c, acc, seen)


def prove_float_field(solver: z3.Solver, pcs: typing.Sequence[typing.Any], field: typing.Any, relation: typing.Callable[[typing.Any], typing.Any],
                      log: QueryLog) -> typing.Optional[z3.ModelRef]:
    """prove pcs => relation(field) where `field` is a bit-vector expression built (by shifting/masking/concatenation) around the encoding
    fp.to_ieee_bv(T) of a floating-point term.  Mixed float + bit-shuffling queries are very slow; the proof is split in two:
      (1) for EVERY bit pattern w in place of the encoding, the field equals w   (pure bit-vector query; generalises the actual encoding)
      (2) relation(fp.to_ieee_bv(T))                                             (pure floating-point query)
    (1) and (2) imply the goal.  If the field does not have that form the goal is asked directly."""
    acc: dict = {}
    _ieee_subterms(field, acc, set())
    if len(acc) == 1:
        (T,) = acc.values()
        if T.size() == field.size():
            w = z3.BitVec("w_enc", T.size())
            before = len(log.unknown)
            m1 = _prove(solver, [c for c in pcs if not _mentions(c, T)], z3.substitute(field, (T, w)) == w, log)
            if m1 is None and len(log.unknown) == before:
                goal = relation(T)
                sl = sym.slice_pc(pcs, goal)
                key = (frozenset(c.get_id() for c in sl), goal.get_id())
                if key in _FP_CACHE:                     # the same conversion lemma recurs for every offset / path: proved once per process
                    log.unsat += 1
                    return None
                b2 = len(log.unknown)
                m2 = _prove(solver, sl, goal, log)
                if m2 is None and len(log.unknown) == b2:
                    _FP_CACHE[key] = (goal, sl)          # keeps the terms alive: AST ids are unique among live terms only
                    return None
                if m2 is not None:
                    return _prove(solver, pcs, goal, log)
                return None
            del log.unknown[before:]
    return _prove(solver, pcs, relation(field), log)


_FP_CACHE: dict = {}


def _mentions(term: typing.Any, sub: typing.Any) -> bool:
    acc: dict = {}
    _ieee_subterms(term, acc, set())
    return sub.get_id() in acc


def _ser_goals(spec: typing.Any, cells: typing.Sequence[typing.Any]) -> typing.Tuple[typing.List[typing.Any], typing.List[tuple]]:
    """the conjuncts of dsdlspec.stream_matches, with the Python float chunks kept apart as (field term, Float64 value, type)"""
    nbytes = (spec.pos + 7) // 8
    if nbytes == 0:
        return [], []
    bs = [npshim._bv(c, 8) for c in cells[:nbytes]]
    whole = bs[0] if nbytes == 1 else z3.Concat(*reversed(bs))
    conj: typing.List[typing.Any] = []
    fps: typing.List[tuple] = []
    for c in spec.chunks:
        field = z3.simplify(z3.Extract(c[1] + c[2] - 1, c[1], whole))
        if c[0] == "x":
            conj.append(field == c[3])
        elif c[0] == "pf":
            fps.append((field, c[3], c[4]))
        else:
            conj.append(D.f16_wire_ok(c[4], c[3], field))
    if spec.pos % 8:
        conj.append(z3.Extract(8 * nbytes - 1, spec.pos, whole) == 0)
    return conj, fps


def _model_values(m: z3.ModelRef, plan: Plan) -> dict:
    out = {}
    for name, v in plan.vars:
        e = m.eval(v, model_completion=True)
        if z3.is_fp(v):
            bv = m.eval(z3.fpToIEEEBV(v), model_completion=True)
            out[name] = "f:%016x" % (bv.as_long() if z3.is_bv_value(bv) else 0x7FF8000000000000)
        else:
            out[name] = e.as_long()
    return out


def max_bytes(t: pydsdl.CompositeType) -> int:
    return (max(D.inner(t).bit_length_set) + 7) // 8


def ser_queries(unit: PyUnit, t: pydsdl.CompositeType, budget_s: float = 240.0) -> QueryLog:
    log = QueryLog()
    solver = _solver()
    t0 = time.time()
    stats: dict = {}
    nshapes = 0
    for shape in shapes(t):
        nshapes += 1
        if nshapes > SHAPE_LIMIT:
            log.unknown.append(f"more than {SHAPE_LIMIT} value shapes")
            break
        plan = Plan()
        val, build = make(plan, t, shape, "")

        def run() -> typing.Any:
            obj = build(unit)
            ser = unit.ns.Serializer.new(obj._EXTENT_BYTES_)
            obj._serialize_(ser)
            buf = ser.buffer
            return buf.raw(), ser.current_bit_length

        try:
            paths = sym.explore(run, pre=plan.pre, budget_s=max(budget_s - (time.time() - t0), 1.0), stats=stats)
        except Unsupported as e:
            log.unknown.append(f"shape {shape}: unsupported: {e}")
            continue
        ch = D.Chooser(None)  # type: ignore  # shapes are concrete: no choice is ever evaluated under a model
        spec = D.ser_top(t, val, ch)
        nbytes = (spec.pos + 7) // 8
        for p in paths:
            log.paths += 1
            if p.kind == "raise":
                m = _prove(solver, p.pc, False, log)           # is the raising path feasible at all (it is: explore only follows feasible paths)
                log.cex.append(dict(fn="ser", kind="raises", what=f"serialization of a valid object raises {type(p.value).__name__}: {str(p.value)[:120]}",
                                    shape=repr(shape), values=_model_values(m, plan) if m is not None else {}))
                continue
            cells, bitlen = p.value
            if len(cells) != nbytes or bitlen != spec.pos:
                m = _prove(solver, p.pc, False, log)
                log.cex.append(dict(fn="ser", kind="size", what=f"serialized length {len(cells)} bytes / {bitlen} bits, specification says {nbytes} / {spec.pos}",
                                    shape=repr(shape), values=_model_values(m, plan) if m is not None else {}))
                continue
            conj, fps = _ser_goals(spec, cells)
            m = _prove_split(solver, p.pc, conj, log)
            for field, d64, ft in fps:
                if m is None:
                    m = prove_float_field(solver, sym.slice_pc(p.pc, d64), field, (lambda f, d64=d64, ft=ft: D.pyfloat_wire_ok(ft, d64, f)), log)
            if m is not None:
                log.cex.append(dict(fn="ser", kind="spec-mismatch", what="serializer output differs from the specification", shape=repr(shape),
                                    values=_model_values(m, plan)))
    log.solver_s += stats.get("solver_s", 0.0)
    log.notes.append(f"{nshapes} value shapes")
    return log


# -- deserialization
def _py_match(exp: typing.Any, act: typing.Any) -> typing.Any:
    """z3 Bool (or Python bool): the Python value `act` equals the expected decode `exp` (dsdlspec value tree)"""
    k, t = exp[0], exp[1]
    if k == "prim":
        e = exp[2]
        if isinstance(t, pydsdl.BooleanType):
            if not isinstance(act, (builtins.bool, SymBool)):
                return False
            return z3.If(act.z, z3.BitVecVal(1, 8), z3.BitVecVal(0, 8)) == e if isinstance(act, SymBool) else z3.BitVecVal(int(act), 8) == e
        if isinstance(t, pydsdl.FloatType):
            wire = e[1] if isinstance(e, tuple) else e
            srt = {16: z3.Float16(), 32: z3.Float32(), 64: z3.Float64()}[t.bit_length]
            y = z3.fpBVToFP(wire, srt)
            if isinstance(act, tuple) and act and act[0] == "fbits":                  # numpy float array element: the bit pattern itself
                a = act[1] if not isinstance(act[1], builtins.int) else z3.BitVecVal(act[1], t.bit_length)
                return a == wire
            if isinstance(act, builtins.float):
                act = SymFloat(z3.FPVal(act, z3.Float64()))
            if not isinstance(act, SymFloat):
                return False
            conv = y if t.bit_length == 64 else z3.fpFPToFP(z3.RNE(), y, z3.Float64())
            return z3.If(z3.fpIsNaN(y), z3.fpIsNaN(act.z), act.z == conv)
        if isinstance(act, SymBool) or isinstance(act, builtins.bool) or not isinstance(act, (builtins.int, SymInt)):
            return False
        a = SymInt.lift(act)
        return a.z == _ext(e, isinstance(t, pydsdl.SignedIntegerType))
    if k in ("arr", "bits"):
        if not isinstance(act, npshim.ndarray):
            return False
        cells = act.raw()
        if len(cells) != len(exp[2]):
            return False
        if k == "bits":
            conj = []
            for b, c in zip(exp[2], cells):
                if not isinstance(c, (builtins.bool, SymBool)):
                    return False
                conj.append((z3.If(c.z, z3.BitVecVal(1, 1), z3.BitVecVal(0, 1)) if isinstance(c, SymBool) else z3.BitVecVal(int(c), 1)) == b)
            return z3.And(*conj) if conj else True
        if isinstance(t.element_type, pydsdl.PrimitiveType) and act.dtype is not np_dtype_of(t.element_type):
            return False
        conj = [_py_match(e, c) for e, c in zip(exp[2], cells)]
        if any(c is False for c in conj):
            return False
        conj = [c for c in conj if c is not True]
        return z3.And(*conj) if conj else True
    if k == "struct":
        conj = [_py_match(e, getattr(act, n)) for n, e in exp[2]]
    else:
        it = D.inner(t)
        name, e = exp[3][0]
        for f in it.fields:
            if f.name != name and getattr(act, f.name) is not None:
                return False
        if getattr(act, name) is None:
            return False
        conj = [_py_match(e, getattr(act, name))]
    if any(c is False for c in conj):
        return False
    conj = [c for c in conj if c is not True]
    return z3.And(*conj) if conj else True


def _shapes_under(solver: z3.Solver, pcs: typing.Sequence[typing.Any], log: QueryLog, limit: int = 400):
    covered: typing.List[typing.Any] = []
    n = 0
    while True:
        t = time.time()
        solver.push()
        for c in pcs:
            solver.add(c)
        for c in covered:
            solver.add(z3.Not(c))
        r = solver.check()
        m = solver.model() if r == z3.sat else None
        solver.pop()
        log.solver_s += time.time() - t
        if r == z3.unsat:
            return
        if r != z3.sat:
            log.unknown.append("shape enumeration: solver unknown")
            return
        n += 1
        if n > limit:
            log.unknown.append("shape enumeration exceeded its limit")
            return
        cond = yield m
        covered.append(cond)
        yield None


def des_queries(unit: PyUnit, t: pydsdl.CompositeType, L: int, budget_s: float = 240.0) -> QueryLog:
    log = QueryLog()
    solver = _solver()
    buf0 = [z3.BitVec(f"b{i}", 8) for i in range(L)]
    cls = unit.cls(t)
    stats: dict = {}

    def run() -> typing.Any:
        cells = [SymInt(z3.ZeroExt(W - 8, b), 9) for b in buf0]
        des = unit.ns.Deserializer.new([npshim.ndarray(cells, npshim.uint8)])
        try:
            return ("obj", cls._deserialize_(des))
        except unit.ns.Deserializer.FormatError:
            return ("format-error", None)

    try:
        paths = sym.explore(run, budget_s=budget_s, stats=stats)
    except Unsupported as e:
        log.unknown.append(f"L={L}: unsupported: {e}")
        return log
    for p in paths:
        log.paths += 1
        if p.kind == "raise":
            m = _prove(solver, p.pc, False, log)
            log.cex.append(dict(fn="des", kind="raises", L=L, what=f"deserialization raises {type(p.value).__name__}: {str(p.value)[:120]} "
                                "(documented: invalid input yields None, never an exception)", buf=_buf_hex(m, buf0)))
            continue
        outcome, obj = p.value
        gen = _shapes_under(solver, p.pc, log)
        for m in gen:
            ch = D.Chooser(m)
            try:
                exp, endbit = D.des_top(t, buf0, ch)
                if outcome != "obj":
                    goal: typing.Any = False
                    desc = "a valid representation is rejected"
                else:
                    goal = _py_match(exp, obj)
                    desc = "decoded value differs from the specification"
            except D.Invalid as inv:
                goal = outcome == "format-error"
                desc = f"invalid representation (error class {inv.code}) is accepted"
            bad = _prove(solver, list(p.pc) + [ch.cond()], goal, log)
            if bad is not None:
                log.cex.append(dict(fn="des", kind="spec-mismatch", L=L, what=desc, buf=_buf_hex(bad, buf0)))
            gen.send(ch.cond())
    log.solver_s += stats.get("solver_s", 0.0)
    return log


def _buf_hex(m: typing.Optional[z3.ModelRef], buf0: typing.Sequence[typing.Any]) -> str:
    if m is None:
        return ""
    return bytes(m.eval(b, model_completion=True).as_long() for b in buf0).hex()


# ---------------------------------------------------------------------------------------------- native runs (real numpy, subprocess)
NATIVE = r'''
import sys, json, struct
sys.path.insert(0, sys.argv[1])
import numpy as np, pydsdl, nunavut_support as ns, vt
def cls_of(t):
    t = t.inner_type if isinstance(t, pydsdl.DelimitedType) else t
    if t.has_parent_service:
        p, c = t.name_components[-2:]
        return getattr(getattr(vt, f"{p}_{t.version.major}_{t.version.minor}"), c)
    return getattr(vt, f"{t.short_name}_{t.version.major}_{t.version.minor}")
def npdt(t):
    if isinstance(t, pydsdl.BooleanType): return np.bool_
    if isinstance(t, pydsdl.FloatType): return {16: np.float16, 32: np.float32, 64: np.float64}[t.bit_length]
    w = next(w for w in (8, 16, 32, 64) if t.bit_length <= w)
    return getattr(np, ("int" if isinstance(t, pydsdl.SignedIntegerType) else "uint") + str(w))
def build(t, v):
    if isinstance(t, pydsdl.BooleanType): return bool(v)
    if isinstance(t, pydsdl.FloatType): return struct.unpack("<d", bytes.fromhex(v)[::-1])[0]
    if isinstance(t, pydsdl.PrimitiveType): return int(v)
    if isinstance(t, pydsdl.ArrayType):
        et = t.element_type
        if isinstance(et, pydsdl.FloatType):
            return np.frombuffer(b"".join(int(x).to_bytes(et.bit_length // 8, "little") for x in v), dtype=npdt(et)).copy()
        if isinstance(et, pydsdl.PrimitiveType): return np.array(v, dtype=npdt(et))
        return np.array([build(et, x) for x in v] + [None], dtype=np.object_)[:-1]
    it = t.inner_type if isinstance(t, pydsdl.DelimitedType) else t
    return cls_of(t)(**{f.name: build(f.data_type, v[f.name]) for f in it.fields_except_padding if f.name in v})
def dump(t, o):
    if isinstance(t, pydsdl.BooleanType): return ["bool", bool(o), type(o).__name__]
    if isinstance(t, pydsdl.FloatType): return ["float", struct.pack("<d", o)[::-1].hex(), type(o).__name__]
    if isinstance(t, pydsdl.PrimitiveType): return ["int", int(o), type(o).__name__]
    if isinstance(t, pydsdl.ArrayType):
        et = t.element_type
        if isinstance(et, pydsdl.FloatType): return ["farr", [int.from_bytes(o[i:i + 1].tobytes(), "little") for i in range(len(o))], str(o.dtype)]
        if isinstance(et, pydsdl.BooleanType): return ["barr", [bool(x) for x in o], str(o.dtype)]
        if isinstance(et, pydsdl.PrimitiveType): return ["iarr", [int(x) for x in o], str(o.dtype)]
        return ["carr", [dump(et, x) for x in o], str(o.dtype)]
    it = t.inner_type if isinstance(t, pydsdl.DelimitedType) else t
    return ["obj", {f.name: (None if getattr(o, f.name) is None else dump(f.data_type, getattr(o, f.name))) for f in it.fields_except_padding}, ""]
def poison(t, o):
    """overwrite, in place, every array reachable from a decoded object (what an application may do with its own message)"""
    it = t.inner_type if isinstance(t, pydsdl.DelimitedType) else t
    for f in it.fields_except_padding:
        v = getattr(o, f.name)
        if v is None: continue
        if isinstance(v, np.ndarray):
            if v.dtype == np.object_:
                for x in v: poison(f.data_type.element_type, x)
            elif v.flags.writeable and v.size:
                v.view(np.uint8)[...] = 0xA5
        elif isinstance(f.data_type, pydsdl.CompositeType):
            poison(f.data_type, v)
req = json.loads(sys.stdin.read())
types = {}
for c in ns.__dict__.get("_x", []): pass
def find(full):
    for name in dir(vt):
        c = getattr(vt, name)
        for cand in [c] + [getattr(c, n) for n in ("Request", "Response") if hasattr(c, n)]:
            m = getattr(cand, "_MODEL_", None)
            if m is not None and str(m.full_name) == full: return cand, m
    raise KeyError(full)
out = []
for r in req:
    c, m = find(r["type"])
    try:
        if r["fn"] == "ser":
            o = build(m, r["value"])
            out.append(dict(ok=True, hex=b"".join(bytes(x) for x in ns.serialize(o)).hex()))
        else:
            o = ns.deserialize(c, [memoryview(bytearray.fromhex(r["buf"]))])
            out.append(dict(ok=True, value=None if o is None else dump(m, o)))
            if r.get("poison") and o is not None:
                poison(m, o)
    except Exception as e:
        out.append(dict(ok=False, exc=type(e).__name__, msg=str(e)[:200]))
print(json.dumps(out))
'''


def native_batch(gen: pathlib.Path, reqs: typing.List[dict]) -> typing.List[dict]:
    env = {k: v for k, v in os.environ.items() if k not in ("PYTHONPATH",)}
    p = subprocess.run([common.PY, "-c", NATIVE, str(gen)], input=json.dumps(reqs), stdout=subprocess.PIPE, stderr=subprocess.PIPE, text=True, env=env)
    if p.returncode != 0:
        raise RuntimeError("native run failed: " + p.stderr[-1500:])
    return json.loads(p.stdout.strip().splitlines()[-1])


# -- concrete values <-> plans (for replay and co-simulation)
def value_json(t: pydsdl.SerializableType, shape: typing.Any, plan_vals: typing.Iterator[typing.Any]) -> typing.Any:
    """JSON value for the native driver from the model values in plan order (same traversal as `make`)"""
    if isinstance(t, pydsdl.BooleanType):
        return bool(next(plan_vals))
    if isinstance(t, pydsdl.FloatType):
        return next(plan_vals)[2:]
    if isinstance(t, pydsdl.IntegerType):
        v = next(plan_vals)
        sw = D.storage_bits(t)
        return v - (1 << sw) if isinstance(t, pydsdl.SignedIntegerType) and v >= 1 << (sw - 1) else v
    if isinstance(t, pydsdl.ArrayType):
        et = t.element_type
        if isinstance(et, pydsdl.PrimitiveType):
            n = shape[1]
            if isinstance(et, pydsdl.BooleanType):
                return [bool(next(plan_vals)) for _ in range(n)]
            if isinstance(et, pydsdl.FloatType):
                return [next(plan_vals) for _ in range(n)]
            sw = D.storage_bits(et)
            out = []
            for _ in range(n):
                v = next(plan_vals)
                out.append(v - (1 << sw) if isinstance(et, pydsdl.SignedIntegerType) and v >= 1 << (sw - 1) else v)
            return out
        return [value_json(et, s, plan_vals) for s in shape[1]]
    it = D.inner(t)
    if isinstance(it, pydsdl.UnionType):
        f = it.fields[shape[1]]
        return {f.name: value_json(f.data_type, shape[2], plan_vals)}
    return {f.name: value_json(f.data_type, s, plan_vals) for f, s in zip(it.fields_except_padding, shape[1])}


def spec_check_ser(t: pydsdl.CompositeType, shape: typing.Any, values: dict, got_hex: str) -> typing.Tuple[bool, str]:
    """does the natively produced byte string satisfy the specification for this concrete value?"""
    plan = Plan()
    val, _ = make(plan, t, shape, "")
    subst = []
    for name, v in plan.vars:
        x = values[name]
        subst.append((v, z3.fpBVToFP(z3.BitVecVal(int(x[2:], 16), 64), z3.Float64()) if isinstance(x, str) else z3.BitVecVal(x, v.size())))
    spec = D.ser_top(t, val, D.Chooser(None))  # type: ignore
    got = bytes.fromhex(got_hex)
    nbytes = (spec.pos + 7) // 8
    if len(got) != nbytes:
        return False, f"length {len(got)} != specified {nbytes}"
    goal = z3.simplify(z3.substitute(D.stream_matches(spec, list(got)), *subst)) if nbytes else z3.BoolVal(True)
    return z3.is_true(goal), f"native bytes {got_hex}"


def spec_check_des(t: pydsdl.CompositeType, buf_hex: str, native: dict) -> typing.Tuple[bool, str]:
    """does the natively decoded value equal the specified decode of this concrete buffer?"""
    buf = list(bytes.fromhex(buf_hex))
    s = z3.Solver()
    s.check()
    ch = D.Chooser(s.model())
    try:
        exp, _ = D.des_top(t, buf, ch)
    except D.Invalid:
        return (native.get("ok") and native.get("value") is None), f"specification: invalid representation; native: {native}"
    if not native.get("ok") or native.get("value") is None:
        return False, f"specification: valid representation; native: {native}"
    ok = _native_match(exp, native["value"])
    return ok, f"native decode {json.dumps(native['value'])[:300]}"


def _native_match(exp: typing.Any, nv: typing.Any) -> bool:
    k, t = exp[0], exp[1]
    kind, v, tyname = nv
    if k == "prim":
        e = exp[2]
        if isinstance(t, pydsdl.BooleanType):
            return kind == "bool" and tyname == "bool" and z3.is_true(z3.simplify(z3.BitVecVal(int(v), 8) == e))
        if isinstance(t, pydsdl.FloatType):
            wire = e[1] if isinstance(e, tuple) else e
            act = SymFloat(z3.fpBVToFP(z3.BitVecVal(int(v, 16), 64), z3.Float64()))
            return kind == "float" and tyname == "float" and z3.is_true(z3.simplify(_py_match(exp, act)))
        return kind == "int" and tyname == "int" and z3.is_true(z3.simplify(_py_match(exp, int(v))))
    if k in ("arr", "bits"):
        if len(v) != len(exp[2]):
            return False
        if k == "bits":
            return kind == "barr" and tyname == "bool" and all(z3.is_true(z3.simplify(z3.BitVecVal(int(x), 1) == b)) for x, b in zip(v, exp[2]))
        et = t.element_type
        if isinstance(et, pydsdl.FloatType):
            return kind == "farr" and tyname == np_dtype_of(et).name and all(
                z3.is_true(z3.simplify(z3.BitVecVal(x, et.bit_length) == (e[2][1] if isinstance(e[2], tuple) else e[2]))) for x, e in zip(v, exp[2]))
        if isinstance(et, pydsdl.PrimitiveType):
            return kind == "iarr" and tyname == np_dtype_of(et).name and all(z3.is_true(z3.simplify(_py_match(e, int(x)))) for x, e in zip(v, exp[2]))
        return kind == "carr" and all(_native_match(e, x) for e, x in zip(exp[2], v))
    if kind != "obj":
        return False
    if k == "struct":
        return all(v.get(n) is not None and _native_match(e, v[n]) for n, e in exp[2])
    name, e = exp[3][0]
    return all((x is None) == (n != name) for n, x in v.items()) and _native_match(e, v[name])


def replay(gen: pathlib.Path, t: pydsdl.CompositeType, cex: dict) -> typing.Tuple[bool, str]:
    """True = the violation reproduces with the real numpy and CPython integers"""
    try:
        if cex["fn"] == "ser":
            shape = eval(cex["shape"], {}, {})      # repr of nested tuples/lists/ints/None produced by this module
            plan = Plan()
            make(plan, t, shape, "")
            vals = iter([cex["values"][n] for n, _ in plan.vars])
            vj = value_json(t, shape, vals)
            r = native_batch(gen, [dict(type=str(D.inner(t).full_name), fn="ser", value=vj)])[0]
            if not r["ok"]:
                nep50 = r["exc"] == "OverflowError" and "out of bounds for" in r.get("msg", "")
                return (not nep50), f"native: raises {r['exc']}: {r.get('msg')}" + (" (numpy >= 2 scalar promotion, outside the declared numpy ~= 1.24)" if nep50 else "")
            ok, how = spec_check_ser(t, shape, cex["values"], r["hex"])
            return (not ok), f"value {json.dumps(vj)[:200]} -> {how}"
        r = native_batch(gen, [dict(type=str(D.inner(t).full_name), fn="des", buf=cex["buf"])])[0]
        if not r["ok"]:
            return True, f"native: deserialize raises {r['exc']}: {r.get('msg')}"
        ok, how = spec_check_des(t, cex["buf"], r)
        return (not ok), f"buffer {cex['buf']} -> {how}"
    except Exception as e:  # a replay that cannot run confirms nothing
        return False, f"replay failed: {type(e).__name__}: {e}"


# ---------------------------------------------------------------------------------------------- round trip (C03, Python target)
def _rt_match(v: typing.Any, act: typing.Any, conj: typing.List[typing.Any]) -> bool:
    """append: the decoded Python value `act` equals the cast-adjusted original `v` (dsdlspec value tree of the plan); False on a
    structural mismatch"""
    k, t = v[0], v[1]
    if k == "prim":
        st = v[2]
        if isinstance(t, pydsdl.BooleanType):
            if not isinstance(act, (builtins.bool, SymBool)):
                return False
            conj.append((z3.If(act.z, z3.BitVecVal(1, 8), z3.BitVecVal(0, 8)) if isinstance(act, SymBool) else z3.BitVecVal(int(act), 8)) == st)
            return True
        if isinstance(t, pydsdl.FloatType):
            if isinstance(st, tuple) and st[0] == "fbits":
                if not (isinstance(act, tuple) and act and act[0] == "fbits"):
                    return False
                conj.append((act[1] if not isinstance(act[1], builtins.int) else z3.BitVecVal(act[1], t.bit_length)) == st[1])
                return True
            d = st[1]
            if isinstance(act, builtins.float):
                act = SymFloat(z3.FPVal(act, z3.Float64()))
            if not isinstance(act, SymFloat):
                return False
            if t.bit_length == 64:
                conj.append(act.z == d)
            else:
                srt = {16: z3.Float16(), 32: z3.Float32()}[t.bit_length]
                if npshim._is_widened_from(act.z, srt):          # decoded value is syntactically the exact widening of a value of the wire format
                    conj.append(D.pyfloat_wire_ok(t, d, z3.fpToIEEEBV(act.z.arg(1))))
                else:
                    y = z3.fpFPToFP(z3.RNE(), act.z, srt)
                    conj.append(z3.And(z3.fpFPToFP(z3.RNE(), y, z3.Float64()) == act.z, D.pyfloat_wire_ok(t, d, z3.fpToIEEEBV(y))))
            return True
        if isinstance(act, (builtins.bool, SymBool)) or not isinstance(act, (builtins.int, SymInt)):
            return False
        a = D.cast_adjust(t, st)
        conj.append(SymInt.lift(act).z == _ext(a, isinstance(t, pydsdl.SignedIntegerType)))
        return True
    if k in ("arr", "bits"):
        if not isinstance(act, npshim.ndarray):
            return False
        cells = act.raw()
        if k == "bits":
            n = v[3] if v[3] is not None else t.capacity
            if len(cells) != n:
                return False
            for i, c in enumerate(cells):
                if not isinstance(c, (builtins.bool, SymBool)):
                    return False
                conj.append((z3.If(c.z, z3.BitVecVal(1, 1), z3.BitVecVal(0, 1)) if isinstance(c, SymBool) else z3.BitVecVal(int(c), 1)) == z3.Extract(i % 8, i % 8, v[2][i // 8]))
            return True
        if len(cells) != len(v[2]):
            return False
        return all(_rt_match(e, c, conj) for e, c in zip(v[2], cells))
    if k == "struct":
        return all(_rt_match(e, getattr(act, n), conj) for n, e in v[2])
    it = D.inner(t)
    name, e = v[3][v[2]]
    for f in it.fields:
        if (getattr(act, f.name) is None) != (f.name != name):
            return False
    return _rt_match(e, getattr(act, name), conj)


def _no_nan(v: typing.Any) -> typing.List[typing.Any]:
    k = v[0]
    if k == "prim":
        return [z3.Not(z3.fpIsNaN(v[2][1]))] if isinstance(v[2], tuple) and v[2][0] == "pyfloat" else []
    if k == "arr":
        return [c for e in v[2] for c in _no_nan(e)]
    if k == "bits":
        return []
    if k == "struct":
        return [c for _, e in v[2] for c in _no_nan(e)]
    return [c for _, e in v[3] if e is not None for c in _no_nan(e)]


def roundtrip_queries(unit: PyUnit, t: pydsdl.CompositeType, budget_s: float = 240.0) -> QueryLog:
    """serialize -> deserialize -> serialize again, in one symbolic run per value shape: the decoded object equals the cast-adjusted
    original, the second byte string equals the first (no use of the wire reference model)"""
    log = QueryLog()
    solver = _solver()
    stats: dict = {}
    t0 = time.time()
    cls = unit.cls(t)
    for ns_, shape in enumerate(shapes(t)):
        if ns_ >= SHAPE_LIMIT:
            log.unknown.append(f"more than {SHAPE_LIMIT} value shapes")
            break
        plan = Plan()
        val, build = make(plan, t, shape, "")
        pre = plan.pre + _no_nan(val)

        def run() -> typing.Any:
            obj = build(unit)
            ser = unit.ns.Serializer.new(obj._EXTENT_BYTES_)
            obj._serialize_(ser)
            b1 = ser.buffer.raw()
            des = unit.ns.Deserializer.new([npshim.ndarray(list(b1), npshim.uint8)])
            obj2 = cls._deserialize_(des)
            ser2 = unit.ns.Serializer.new(obj2._EXTENT_BYTES_)
            obj2._serialize_(ser2)
            return b1, obj2, ser2.buffer.raw()

        try:
            paths = sym.explore(run, pre=pre, budget_s=max(budget_s - (time.time() - t0), 1.0), stats=stats)
        except Unsupported as e:
            log.unknown.append(f"shape {shape}: unsupported: {e}")
            continue
        for p in paths:
            log.paths += 1
            if p.kind == "raise":
                m = _prove(solver, p.pc, False, log)
                log.cex.append(dict(fn="rt", kind="raises", what=f"round trip of a valid object raises {type(p.value).__name__}: {str(p.value)[:120]}",
                                    shape=repr(shape), values=_model_values(m, plan) if m is not None else {}))
                continue
            b1, obj2, b2 = p.value
            conj: typing.List[typing.Any] = []
            ok = _rt_match(val, obj2, conj)
            m = _prove_split(solver, p.pc, conj if ok else [False], log)
            if m is not None:
                log.cex.append(dict(fn="rt", kind="roundtrip-value", what="deserialize(serialize(v)) differs from the cast-adjusted v", shape=repr(shape),
                                    values=_model_values(m, plan)))
            m = _prove_split(solver, p.pc, [npshim._bv(x, 8) == npshim._bv(y, 8) for x, y in zip(b1, b2)] if len(b1) == len(b2) else [False], log)
            if m is not None:
                log.cex.append(dict(fn="rt", kind="roundtrip-bytes", what="serializing the decoded value again yields different bytes", shape=repr(shape),
                                    values=_model_values(m, plan)))
    log.solver_s += stats.get("solver_s", 0.0)
    return log


def replay_roundtrip(gen: pathlib.Path, t: pydsdl.CompositeType, cex: dict) -> typing.Tuple[bool, str]:
    """native: serialize the concrete value, deserialize, serialize again; reproduced iff bytes differ, decoding fails, or it raises"""
    try:
        shape = eval(cex["shape"], {}, {})
        plan = Plan()
        make(plan, t, shape, "")
        vj = value_json(t, shape, iter([cex["values"][n] for n, _ in plan.vars]))
        full = str(D.inner(t).full_name)
        r1 = native_batch(gen, [dict(type=full, fn="ser", value=vj)])[0]
        if not r1["ok"]:
            return True, f"native: serialize raises {r1['exc']}: {r1.get('msg')}"
        r2 = native_batch(gen, [dict(type=full, fn="des", buf=r1["hex"])])[0]
        if not r2["ok"] or r2["value"] is None:
            return True, f"native: own output {r1['hex']} does not deserialize: {r2}"
        ok, how = spec_check_des(t, r1["hex"], r2)          # concrete comparison of the decoded value with the decode of the bytes
        r3 = native_batch(gen, [dict(type=full, fn="ser", value=_dump_to_value(t, r2["value"]))])[0]
        if not r3["ok"]:
            return True, f"native: re-serialization raises {r3['exc']}"
        if r3["hex"] != r1["hex"]:
            return True, f"native: value {json.dumps(vj)[:160]} -> {r1['hex']} -> decode -> {r3['hex']}"
        if cex["kind"] == "roundtrip-value":
            back = _dump_to_value(t, r2["value"])
            exp = _cast_adjust_json(t, vj)
            return (back != exp), f"native: value {json.dumps(vj)[:120]} decodes back as {json.dumps(back)[:120]} (expected {json.dumps(exp)[:120]})"
        return False, f"native round trip of {json.dumps(vj)[:160]} is stable ({r1['hex']})"
    except Exception as e:
        return False, f"replay failed: {type(e).__name__}: {e}"


def _dump_to_value(t: pydsdl.SerializableType, nv: typing.Any) -> typing.Any:
    kind, v, _ = nv
    if kind in ("bool", "int", "float"):
        return v
    if kind in ("farr", "barr", "iarr"):
        return v
    if kind == "carr":
        return [_dump_to_value(t.element_type, x) for x in v]
    it = D.inner(t)
    return {f.name: _dump_to_value(f.data_type, v[f.name]) for f in it.fields_except_padding if v.get(f.name) is not None}


def _cast_adjust_json(t: pydsdl.SerializableType, v: typing.Any) -> typing.Any:
    """expected decode of a concrete value after its cast-mode adjustment; floats: None-marked (compared through the bytes instead)"""
    if isinstance(t, pydsdl.BooleanType):
        return bool(v)
    if isinstance(t, pydsdl.FloatType):
        return v
    if isinstance(t, pydsdl.IntegerType):
        n = t.bit_length
        lo, hi = (-(1 << (n - 1)), (1 << (n - 1)) - 1) if isinstance(t, pydsdl.SignedIntegerType) else (0, (1 << n) - 1)
        if lo <= v <= hi:
            return v
        if t.cast_mode == D.SAT:
            return min(max(v, lo), hi)
        return v & hi
    if isinstance(t, pydsdl.ArrayType):
        return [_cast_adjust_json(t.element_type, x) for x in v]
    it = D.inner(t)
    return {f.name: _cast_adjust_json(f.data_type, v[f.name]) for f in it.fields_except_padding if f.name in v}


# ---------------------------------------------------------------------------------------------- co-simulation of the numpy stand-in
def _conc(term: typing.Any, subst: typing.Sequence[typing.Tuple[typing.Any, typing.Any]]) -> typing.Any:
    return z3.simplify(z3.substitute(term, *subst)) if subst else z3.simplify(term)


def _dump_shim(t: pydsdl.SerializableType, o: typing.Any, subst: list) -> typing.Any:
    """same structure as NATIVE's dump(), values obtained by evaluating the symbolic result at the concrete input"""
    def ival(x: typing.Any) -> int:
        if isinstance(x, SymInt):
            return _conc(x.z, subst).as_signed_long()
        return builtins.int(x)

    def bval(x: typing.Any) -> bool:
        return z3.is_true(_conc(x.z, subst)) if isinstance(x, SymBool) else builtins.bool(x)
    if isinstance(t, pydsdl.BooleanType):
        return ["bool", bval(o), "bool" if isinstance(o, (builtins.bool, SymBool)) else type(o).__name__]
    if isinstance(t, pydsdl.FloatType):
        z = o.z if isinstance(o, SymFloat) else z3.FPVal(o, z3.Float64())
        f = _conc(z, subst)
        bv = z3.simplify(z3.fpToIEEEBV(f))
        if z3.is_fp_value(f) and f.isNaN():
            return ["float", "nan", "float"]
        return ["float", "%016x" % bv.as_long(), "float" if isinstance(o, (builtins.float, SymFloat)) else type(o).__name__]
    if isinstance(t, pydsdl.PrimitiveType):
        return ["int", ival(o), "int" if isinstance(o, (builtins.int, SymInt)) and not isinstance(o, builtins.bool) else type(o).__name__]
    if isinstance(t, pydsdl.ArrayType):
        et = t.element_type
        cells = o.raw()
        if isinstance(et, pydsdl.FloatType):
            return ["farr", [(_conc(c[1], subst).as_long() if not isinstance(c[1], builtins.int) else c[1]) for c in cells], o.dtype.name]
        if isinstance(et, pydsdl.BooleanType):
            return ["barr", [bval(c) for c in cells], o.dtype.name]
        if isinstance(et, pydsdl.PrimitiveType):
            return ["iarr", [ival(c) for c in cells], o.dtype.name]
        return ["carr", [_dump_shim(et, c, subst) for c in cells], o.dtype.name]
    it = D.inner(t)
    return ["obj", {f.name: (None if getattr(o, f.name) is None else _dump_shim(f.data_type, getattr(o, f.name), subst)) for f in it.fields_except_padding}, ""]


def _norm_native(nv: typing.Any) -> typing.Any:
    """native dump with NaN floats normalised (payloads are not modelled)"""
    if nv is None:
        return None
    kind, v, ty = nv
    if kind == "float":
        bits = int(v, 16)
        if (bits & 0x7FF0000000000000) == 0x7FF0000000000000 and bits & 0x000FFFFFFFFFFFFF:
            return ["float", "nan", ty]
        return nv
    if kind == "carr":
        return [kind, [_norm_native(x) for x in v], ty]
    if kind == "obj":
        return [kind, {k: _norm_native(x) for k, x in v.items()}, ty]
    return nv


def cosimulate(unit: PyUnit, gen: pathlib.Path, types: typing.Sequence[pydsdl.CompositeType], seed: int, per_type: int = 2) -> typing.Tuple[int, typing.List[str]]:
    """the generated code on concrete inputs: stand-in (symbolic run pinned to the input, result evaluated) vs real numpy.  Returns
    (number of compared runs, list of disagreements)."""
    import random
    rng = random.Random(seed)
    reqs: typing.List[dict] = []
    mine: typing.List[typing.Any] = []
    for t in types:
        shp = list(itertools.islice(shapes(t), 40))
        for _ in range(per_type):
            shape = rng.choice(shp)
            plan = Plan()
            val, build = make(plan, t, shape, "")
            s = z3.Solver()
            s.add(*plan.pre)
            pins = []
            for name, v in plan.vars:
                if z3.is_fp(v):
                    c = z3.fpBVToFP(z3.BitVecVal(rng.choice([0, 0x3FF0000000000000, 0xC00921FB54442D18, 0x7FF0000000000000, 0x40EFFC0000000000,
                                                              rng.getrandbits(64)]), 64), z3.Float64())
                else:
                    n = v.size()
                    c = z3.BitVecVal(rng.choice([0, 1, (1 << n) - 1, 1 << (n - 1), rng.getrandbits(n), rng.getrandbits(n) & 0xF]), n)
                s.push()
                s.add(v == c)
                if s.check() != z3.sat:       # outside the setter's range: let the solver pick a value
                    s.pop()
                    s.check()
                    c = s.model().eval(v, model_completion=True)
                    s.add(v == c)
                pins.append((v, c))
            if any(z3.is_fp(v) and z3.is_true(z3.simplify(z3.fpIsNaN(c))) for v, c in pins):
                continue

            def run() -> typing.Any:
                obj = build(unit)
                ser = unit.ns.Serializer.new(obj._EXTENT_BYTES_)
                obj._serialize_(ser)
                return ser.buffer.raw()
            try:
                ps = sym.explore(run, pre=plan.pre + [v == c for v, c in pins])
            except Unsupported as e:
                mine.append(("unsupported", str(e)))
                ps = []
            if len(ps) == 1 and ps[0].kind == "ok":
                got = bytes(_conc(npshim._bv(x, 8), pins).as_long() for x in ps[0].value).hex()
                mine.append(("hex", got))
            elif ps:
                mine.append(("raise", type(ps[0].value).__name__ if ps[0].kind == "raise" else f"{len(ps)} paths"))
            m = s.model() if s.check() == z3.sat else None
            vals = _model_values(m, plan)
            reqs.append(dict(type=str(D.inner(t).full_name), fn="ser", value=value_json(t, shape, iter([vals[n] for n, _ in plan.vars]))))
        # deserialization of random buffers
        for L in {0, max_bytes(t), rng.randint(0, max_bytes(t) + 2)}:
            data = bytes(rng.choice([0, 0, 1, 2, 0xFF, rng.getrandbits(8)]) for _ in range(L))
            buf0 = [z3.BitVec(f"b{i}", 8) for i in range(L)]
            pins = [(b, z3.BitVecVal(x, 8)) for b, x in zip(buf0, data)]
            cls = unit.cls(t)

            def rund() -> typing.Any:
                des = unit.ns.Deserializer.new([npshim.ndarray([SymInt(z3.ZeroExt(W - 8, b), 9) for b in buf0], npshim.uint8)])
                try:
                    return cls._deserialize_(des)
                except unit.ns.Deserializer.FormatError:
                    return None
            try:
                ps = sym.explore(rund, pre=[b == c for b, c in pins])
            except Unsupported as e:
                ps = []
                mine.append(("unsupported", str(e)))
            if len(ps) == 1 and ps[0].kind == "ok":
                mine.append(("value", None if ps[0].value is None else _dump_shim(t, ps[0].value, pins)))
            elif ps:
                mine.append(("raise", type(ps[0].value).__name__ if ps[0].kind == "raise" else f"{len(ps)} paths"))
            reqs.append(dict(type=str(D.inner(t).full_name), fn="des", buf=data.hex()))
    nat = native_batch(gen, reqs)
    bad: typing.List[str] = []
    for r, a, b in zip(reqs, mine, nat):
        if a[0] == "unsupported":
            bad.append(f"{r}: stand-in unsupported: {a[1]}")
        elif not b["ok"]:
            if b["exc"] == "OverflowError" and "out of bounds for" in b.get("msg", ""):
                continue          # numpy >= 2 scalar promotion (outside the declared numpy ~= 1.24)
            if a[0] != "raise" or a[1] != b["exc"]:
                bad.append(f"{r}: native raises {b['exc']}, stand-in {a}")
        elif r["fn"] == "ser":
            if a != ("hex", b["hex"]):
                bad.append(f"{r}: native {b['hex']}, stand-in {a}")
        elif a[0] != "value" or json.dumps(a[1]) != json.dumps(_norm_native(b["value"])):
            bad.append(f"{r}: native {json.dumps(_norm_native(b['value']))[:300]}, stand-in {json.dumps(a[1], default=str)[:300]}")
    return len(reqs), bad


# ---------------------------------------------------------------------------------------------- C18: built-in container round trip
def builtin_roundtrip_queries(unit: PyUnit, t: pydsdl.CompositeType, budget_s: float = 240.0) -> QueryLog:
    """obj -> nunavut_support.to_builtin -> update_from_builtin(Type(), ...) -> the new object serializes to the same bytes, for every
    value of every shape (the real generated support module and classes, executed by pysym)"""
    log = QueryLog()
    solver = _solver()
    stats: dict = {}
    t0 = time.time()
    cls = unit.cls(t)
    for ns_, shape in enumerate(shapes(t)):
        if ns_ >= SHAPE_LIMIT:
            log.unknown.append(f"more than {SHAPE_LIMIT} value shapes")
            break
        plan = Plan()
        val, build = make(plan, t, shape, "")
        pre = plan.pre + _no_nan(val)

        def run() -> typing.Any:
            obj = build(unit)
            ser = unit.ns.Serializer.new(obj._EXTENT_BYTES_)
            obj._serialize_(ser)
            b1 = ser.buffer.raw()
            plain = unit.ns.to_builtin(obj)
            obj2 = unit.ns.update_from_builtin(cls(), plain)
            ser2 = unit.ns.Serializer.new(obj2._EXTENT_BYTES_)
            obj2._serialize_(ser2)
            return b1, ser2.buffer.raw(), _plain_ok(plain)

        try:
            paths = sym.explore(run, pre=pre, budget_s=max(budget_s - (time.time() - t0), 1.0), stats=stats)
        except Unsupported as e:
            if "tobytes()" in str(e):
                n = f"NOT COVERED [py built-in round trip]: shapes with a non-empty string-like (uint8[<=N]) array: to_builtin decides text vs list on the symbolic bytes"
                if n not in log.notes:
                    log.notes.append(n)
            else:
                log.unknown.append(f"shape {shape}: unsupported: {e}")
            continue
        for p in paths:
            log.paths += 1
            if p.kind == "raise":
                m = _prove(solver, p.pc, False, log)
                log.cex.append(dict(fn="builtin", kind="raises", what=f"to_builtin/update_from_builtin of a valid object raises {type(p.value).__name__}: {str(p.value)[:120]}",
                                    shape=repr(shape), values=_model_values(m, plan) if m is not None else {}))
                continue
            b1, b2, plain_ok = p.value
            if plain_ok is not True:
                m = _prove(solver, p.pc, False, log)
                log.cex.append(dict(fn="builtin", kind="not-builtin", what=f"to_builtin returned a non-built-in value: {plain_ok}", shape=repr(shape),
                                    values=_model_values(m, plan) if m is not None else {}))
                continue
            m = _prove_split(solver, p.pc, [npshim._bv(x, 8) == npshim._bv(y, 8) for x, y in zip(b1, b2)] if len(b1) == len(b2) else [False], log)
            if m is not None:
                log.cex.append(dict(fn="builtin", kind="builtin-roundtrip", what="update_from_builtin(T(), to_builtin(v)) serializes to different bytes than v",
                                    shape=repr(shape), values=_model_values(m, plan)))
    log.solver_s += stats.get("solver_s", 0.0)
    return log


def _plain_ok(x: typing.Any) -> typing.Any:
    """True, or a description of the first value that is not dict/list/str/bool/int/float (symbolic ints/bools/floats stand for those)"""
    if isinstance(x, dict):
        for k, v in x.items():
            if not isinstance(k, str):
                return f"key {k!r}"
            r = _plain_ok(v)
            if r is not True:
                return r
        return True
    if isinstance(x, (list, tuple)):
        for v in x:
            r = _plain_ok(v)
            if r is not True:
                return r
        return True
    if isinstance(x, (str, builtins.bool, builtins.int, builtins.float, SymInt, SymBool, SymFloat)):
        return True
    return f"{type(x).__name__}"


NATIVE_BUILTIN = r'''
import sys, json
sys.path.insert(0, sys.argv[1])
import numpy as np, nunavut_support as ns
exec(sys.argv[2])
'''


def replay_builtin(gen: pathlib.Path, t: pydsdl.CompositeType, cex: dict) -> typing.Tuple[bool, str]:
    try:
        shape = eval(cex["shape"], {}, {})
        plan = Plan()
        make(plan, t, shape, "")
        vj = value_json(t, shape, iter([cex["values"][n] for n, _ in plan.vars]))
        full = str(D.inner(t).full_name)
        env = {k: v for k, v in os.environ.items() if k != "PYTHONPATH"}
        code = NATIVE.replace("req = json.loads(sys.stdin.read())", "req = json.loads(sys.stdin.read())\nBUILTIN = True")
        code = code.replace('            out.append(dict(ok=True, hex=b"".join(bytes(x) for x in ns.serialize(o)).hex()))',
                            '            o2 = ns.update_from_builtin(c(), ns.to_builtin(o))\n'
                            '            out.append(dict(ok=True, hex=b"".join(bytes(x) for x in ns.serialize(o)).hex(), hex2=b"".join(bytes(x) for x in ns.serialize(o2)).hex(), plain=repr(ns.to_builtin(o))[:200]))')
        p = subprocess.run([common.PY, "-c", code, str(gen)], input=json.dumps([dict(type=full, fn="ser", value=vj)]), stdout=subprocess.PIPE, stderr=subprocess.PIPE, text=True, env=env)
        if p.returncode != 0:
            return False, "native run failed: " + p.stderr[-300:]
        r = json.loads(p.stdout.strip().splitlines()[-1])[0]
        if not r["ok"]:
            nep50 = r["exc"] == "OverflowError" and "out of bounds for" in r.get("msg", "")
            return (not nep50), f"native: raises {r['exc']}: {r.get('msg')}"
        return (r["hex"] != r["hex2"]), f"native: {json.dumps(vj)[:140]} -> {r['hex']}; via built-ins {r['plain']} -> {r['hex2']}"
    except Exception as e:
        return False, f"replay failed: {type(e).__name__}: {e}"


def array_validation_queries(unit: PyUnit, t: pydsdl.CompositeType) -> QueryLog:
    """C18: constructing or assigning an array field with more elements than its capacity (variable) / another number of elements than its
    length (fixed) raises ValueError rather than storing it; a permitted number of elements is stored.  Element values symbolic (anywhere
    in the numpy element type), element counts 0..capacity+2 enumerated, given as a list and as an array of the field's own dtype."""
    log = QueryLog()
    solver = _solver()
    it = D.inner(t)
    if isinstance(it, pydsdl.UnionType):
        return log
    cls = unit.cls(t)
    for f in it.fields_except_padding:
        ft = f.data_type
        if not (isinstance(ft, pydsdl.ArrayType) and isinstance(ft.element_type, pydsdl.PrimitiveType)):
            continue
        var = isinstance(ft, pydsdl.VariableLengthArrayType)
        dt = np_dtype_of(ft.element_type)
        for n in range(0, ft.capacity + 3):
            for form in ("list", "ndarray"):
                for via in ("constructor", "setter"):
                    vs = [z3.BitVec(f"e{i}", dt.bits if dt.kind != "b" else 1) for i in range(n)]

                    def cells() -> list:
                        if dt.kind == "b":
                            return [sym.mk_bool(v == 1) for v in vs]
                        if dt.kind == "f":
                            return [("fbits", v) for v in vs]
                        return [sym.mk_int(_ext(v, dt.kind == "i"), dt.bits + 1) for v in vs]

                    def run() -> typing.Any:
                        c = cells()
                        if form == "ndarray":
                            arg: typing.Any = npshim.ndarray(c, dt)
                        else:
                            arg = [npshim._scalar_out(x, dt) for x in c]
                        try:
                            if via == "constructor":
                                o = cls(**{f.name: arg})
                            else:
                                o = cls()
                                setattr(o, f.name, arg)
                        except ValueError:
                            return ("ValueError", None)
                        return ("stored", getattr(o, f.name))

                    try:
                        paths = sym.explore(run, budget_s=60.0)
                    except Unsupported as e:
                        log.unknown.append(f"{f.name} n={n} {form} {via}: unsupported: {e}")
                        continue
                    must_raise = (n > ft.capacity) if var else (n != ft.capacity)
                    for p in paths:
                        log.paths += 1
                        ok: typing.Any
                        if p.kind == "raise":
                            ok, what = False, f"raises {type(p.value).__name__} instead of ValueError: {str(p.value)[:80]}"
                        elif p.value[0] == "ValueError":
                            ok, what = must_raise, "a permitted array is rejected"
                        elif must_raise:
                            ok, what = False, f"{n} elements stored in {ft}"
                        else:
                            got = p.value[1]
                            ok = isinstance(got, npshim.ndarray) and len(got) == n and got.dtype is dt
                            what = "stored array has the wrong length or element type"
                            if ok and n:
                                conj = []
                                for g, v in zip(got.raw(), vs):
                                    if dt.kind == "b":
                                        conj.append((z3.If(g.z, z3.BitVecVal(1, 1), z3.BitVecVal(0, 1)) if isinstance(g, SymBool) else z3.BitVecVal(int(builtins.bool(g)), 1)) == v)
                                    elif dt.kind == "f":
                                        conj.append((g[1] if not isinstance(g[1], builtins.int) else z3.BitVecVal(g[1], dt.bits)) == v)
                                    else:
                                        conj.append(SymInt.lift(g).z == _ext(v, dt.kind == "i"))
                                ok = z3.And(*conj)
                                what = "stored elements differ from the given ones"
                        m = _prove(solver, p.pc, ok, log)
                        if m is not None:
                            log.cex.append(dict(fn="arrayval", kind="array-validation", what=f"{t.full_name}.{f.name} ({ft}) given {n} elements as {form} via {via}: {what}",
                                                field=f.name, n=n, form=form, via=via, elems=[m.eval(v, model_completion=True).as_long() for v in vs]))
    return log


def replay_arrayval(gen: pathlib.Path, t: pydsdl.CompositeType, cex: dict) -> typing.Tuple[bool, str]:
    it = D.inner(t)
    f = [x for x in it.fields_except_padding if x.name == cex["field"]][0]
    ft = f.data_type
    et = ft.element_type
    dt = np_dtype_of(et)
    elems = []
    for v in cex["elems"]:
        if dt.kind == "i" and v >= 1 << (dt.bits - 1):
            v -= 1 << dt.bits
        elems.append(bool(v) if dt.kind == "b" else v)
    code = f'''
import sys, json
sys.path.insert(0, {str(gen)!r})
import numpy as np, vt
from vt import *
import nunavut_support as ns
def find(full):
    for name in dir(vt):
        c = getattr(vt, name)
        for cand in [c] + [getattr(c, n) for n in ("Request", "Response") if hasattr(c, n)]:
            m = getattr(cand, "_MODEL_", None)
            if m is not None and str(m.full_name) == full: return cand
c = find({str(D.inner(t).full_name)!r})
elems = {elems!r}
dt = np.dtype({dt.name!r})
if {dt.kind!r} == "f":
    arr = np.frombuffer(b"".join(int(x).to_bytes(dt.itemsize, "little") for x in elems), dtype=dt).copy()
else:
    arr = np.array(elems, dtype=dt)
arg = arr if {cex["form"]!r} == "ndarray" else list(arr)
try:
    if {cex["via"]!r} == "constructor": o = c(**{{{f.name!r}: arg}})
    else:
        o = c(); setattr(o, {f.name!r}, arg)
    got = getattr(o, {f.name!r})
    print(json.dumps(dict(outcome="stored", n=len(got), same=bool(got.tobytes() == arr.tobytes()), dtype=str(got.dtype))))
except ValueError as e:
    print(json.dumps(dict(outcome="ValueError")))
except Exception as e:
    print(json.dumps(dict(outcome=type(e).__name__, msg=str(e)[:100])))
'''
    env = {k: v for k, v in os.environ.items() if k != "PYTHONPATH"}
    p = subprocess.run([common.PY, "-c", code], stdout=subprocess.PIPE, stderr=subprocess.PIPE, text=True, env=env)
    if p.returncode != 0 or not p.stdout.strip():
        return False, "native run failed: " + p.stderr[-300:]
    r = json.loads(p.stdout.strip().splitlines()[-1])
    n = cex["n"]
    var = isinstance(ft, pydsdl.VariableLengthArrayType)
    must_raise = (n > ft.capacity) if var else (n != ft.capacity)
    if r["outcome"] == "ValueError":
        return (not must_raise), f"native: ValueError for {n} elements"
    if r["outcome"] == "stored":
        bad = must_raise or r["n"] != n or not r["same"] or r["dtype"] != dt.name
        return bad, f"native: stored {r}"
    return True, f"native: {r}"


# ---------------------------------------------------------------------------------------------- process history (concrete, real numpy)
def history_cosimulate(gen: pathlib.Path, types: typing.Sequence[pydsdl.CompositeType], seed: int) -> typing.Tuple[int, typing.List[str]]:
    """State kept between calls (memoised helpers, shared scratch arrays) is invisible to a per-call symbolic run, which re-imports nothing and
    treats caches as transparent.  This CONCRETE run executes, in ONE process with the real numpy: serialize A, serialize B, serialize A again
    (A and B differing in the sign of every float zero and in integer values), and deserialize X, overwrite every array of the result in place,
    deserialize Y, deserialize X again (X truncated before its last fields).  Every result is compared with the specification evaluated concretely.
    Returns (number of native calls compared, list of violations)."""
    import random
    rng = random.Random(seed)
    reqs: typing.List[dict] = []
    expect: typing.List[tuple] = []
    for t in types:
        if t.short_name.startswith("S_"):
            continue
        shp = list(itertools.islice(shapes(t), 12))
        shape = shp[-1]
        plans = []
        for variant in (0, 1):
            plan = Plan()
            make(plan, t, shape, "")
            s = z3.Solver()
            s.add(*plan.pre)
            vals = {}
            for name, v in plan.vars:
                if z3.is_fp(v):
                    vals[name] = "f:%016x" % (0x8000000000000000 if variant else 0)
                else:
                    n = v.size()
                    c = rng.getrandbits(n) if variant else 0
                    s.push()
                    s.add(v == c)
                    if s.check() != z3.sat:
                        s.pop()
                        s.check()
                        c = s.model().eval(v, model_completion=True).as_long()
                    else:
                        s.pop()
                    s.add(v == c)
                    vals[name] = c
            plans.append((plan, vals))
        full = str(D.inner(t).full_name)
        for k in (0, 1, 0, 1):
            plan, vals = plans[k]
            reqs.append(dict(type=full, fn="ser", value=value_json(t, shape, iter([vals[n] for n, _ in plan.vars]))))
            expect.append(("ser", t, shape, vals))
        mx = max_bytes(t)
        x = bytes(rng.getrandbits(8) for _ in range(max(mx // 2, 0)))
        y = bytes(rng.getrandbits(8) for _ in range(mx))
        # short buffers whose first byte is a plausible count / tag and whose remaining fields lie in the implicit zero extension
        for buf, poison in ((b"\x01", True), (b"\x02", True), (b"", True), (b"\x01", True), (x, True), (y, True), (b"\x01\x00\x00\x00\x00", True),
                            (x, False), (b"\x02", False), (b"", False)):
            reqs.append(dict(type=full, fn="des", buf=buf.hex(), poison=poison))
            expect.append(("des", t, buf.hex()))
    nat = native_batch(gen, reqs)
    bad: typing.List[str] = []
    for r, e, n in zip(reqs, expect, nat):
        if not n["ok"]:
            if n["exc"] == "OverflowError" and "out of bounds for" in n.get("msg", ""):
                continue
            bad.append(f"{r['type']} {r['fn']}: native raises {n['exc']}: {n.get('msg')}")
            continue
        if e[0] == "ser":
            ok, how = spec_check_ser(e[1], e[2], e[3], n["hex"])
            if not ok:
                bad.append(f"{r['type']} serialize {json.dumps(r['value'])[:120]} (after other values in the same process): {how}")
        else:
            ok, how = spec_check_des(e[1], e[2], n)
            if not ok:
                bad.append(f"{r['type']} deserialize {e[2]} (after other buffers and in-place edits of earlier results): {how}")
    return len(reqs), bad
