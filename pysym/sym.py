"""E4 `pysym`: symbolic values for executing the *real* generated Python codecs (and the real nunavut_support module) with z3.

Python's unbounded `int` is represented by a signed 256-bit bit-vector together with a syntactic upper bound on the number of bits the
value can need (`bits`); an operation whose result could need more than 255 bits raises `Unsupported` (inconclusive, never a pass), so
the bit-vector never wraps.  Python's `float` is a z3 Float64 term.  Branching on a symbolic truth value forks by *decision replay*:
the function under test is re-executed from scratch once per feasible path, the solver deciding which sides of a branch are feasible
under the path condition.  Using a symbolic integer as an index/size (`__index__`) splits on its feasible values (at most `SPLIT_MAX`,
otherwise `Unsupported`): the bounded-domain splitting of DESIGN.md section 2, exhaustive by construction.

SymInt is deliberately NOT a subclass of int: CPython does not call `__index__` on int subclasses (it reads the machine value), which
would silently turn a symbolic count into 0.  Code under test that says `int(x)`, `isinstance(x, int)`, `float(x)`, `bool(x)`, `min`,
`max` gets symbol-aware stand-ins injected into its module globals (see `inject`): each has exactly the builtin's meaning on concrete
values and the obvious lifting (If-then-else terms) on symbolic ones."""
from __future__ import annotations

import builtins
import time
import typing

import z3

W = 256
SPLIT_MAX = 64
F64 = z3.Float64()
RNE = z3.RNE()


class Unsupported(Exception):
    """the executor cannot represent this operation: the run is inconclusive"""


class Ctx:
    def __init__(self, decisions: typing.Sequence[typing.Any], pre: typing.Sequence[typing.Any], timeout_ms: int):
        self.decisions = list(decisions)
        self.pos = 0
        self.pc: typing.List[typing.Any] = list(pre)
        self.alts: typing.List[typing.List[typing.Any]] = []
        self.solver = z3.Solver()
        self.solver.set("timeout", timeout_ms)
        for c in pre:
            self.solver.add(c)
        self.solver_s = 0.0
        self.calls = 0
        self.timeout_ms = timeout_ms

    def feasible(self, e: typing.Any) -> bool:
        """is (pc and e) satisfiable?  Decided on the connected component of pc that shares inputs with e (exact: the rest of pc is
        satisfiable on its own, because the path so far is feasible, and shares no variable with the component); answers are cached
        across paths and runs (they are logical facts)."""
        t = time.time()
        sl = slice_pc(self.pc, e)
        key = (frozenset(c.get_id() for c in sl), e.get_id())
        if key in _FEAS_CACHE:
            return _FEAS_CACHE[key]
        s = z3.Solver()
        s.set("timeout", self.timeout_ms)
        for c in sl:
            s.add(c)
        s.add(e)
        r = s.check()
        self.solver_s += time.time() - t
        self.calls += 1
        if r == z3.unknown:
            raise Unsupported("solver unknown on a feasibility check")
        _FEAS_CACHE[key] = r == z3.sat
        return r == z3.sat

    def assume(self, e: typing.Any) -> None:
        self.pc.append(e)
        self.solver.add(e)

    def decide(self, cond: typing.Any) -> bool:
        """truth value of a symbolic condition on this path.  A decision is a real fork (recorded as a bool, the condition joins the path
        condition) or forced (only one side feasible: recorded as ('f', side); the path condition already implies it and is left alone)."""
        if self.pos < len(self.decisions):
            d = self.decisions[self.pos]
            self.pos += 1
            if isinstance(d, tuple) and d[0] == "f":
                return d[1]
            assert isinstance(d, bool), "decision kind mismatch on replay (non-deterministic code under test?)"
            self.assume(cond if d else z3.Not(cond))
            return d
        t, f = self.feasible(cond), self.feasible(z3.Not(cond))
        if t and f:
            self.alts.append(self.decisions[: self.pos] + [False])
            d = True
            self.decisions.append(d)
            self.assume(cond)
        elif t or f:
            d = t
            self.decisions.append(("f", d))
        else:
            raise Unsupported("path condition became infeasible")
        self.pos += 1
        return d

    def concretize(self, term: typing.Any) -> int:
        if self.pos < len(self.decisions):
            v = self.decisions[self.pos]
            assert isinstance(v, tuple) and v[0] == "v", "decision kind mismatch on replay"
            v = v[1]
        else:
            vals: typing.List[int] = []
            t = time.time()
            self.solver.push()
            while len(vals) <= SPLIT_MAX:
                r = self.solver.check()
                self.calls += 1
                if r == z3.unknown:
                    self.solver.pop()
                    raise Unsupported("solver unknown while splitting a symbolic index")
                if r != z3.sat:
                    break
                x = self.solver.model().eval(term, model_completion=True).as_signed_long()
                vals.append(x)
                self.solver.add(term != x)
            self.solver.pop()
            self.solver_s += time.time() - t
            if len(vals) > SPLIT_MAX:
                raise Unsupported(f"symbolic index/size with more than {SPLIT_MAX} feasible values")
            if not vals:
                raise Unsupported("path condition became infeasible")
            vals.sort()
            for x in vals[1:]:
                self.alts.append(self.decisions[: self.pos] + [("v", x)])
            v = vals[0]
            self.decisions.append(("v", v))
        self.pos += 1
        self.assume(term == v)
        return v


_FEAS_CACHE: typing.Dict[typing.Any, bool] = {}
_VARS_CACHE: typing.Dict[int, typing.Tuple[typing.Any, frozenset]] = {}


def term_vars(term: typing.Any) -> frozenset:
    """names of the uninterpreted constants of a term (memoised by AST id; the term is kept alive so that ids are not reused)"""
    key = term.get_id()
    hit = _VARS_CACHE.get(key)
    if hit is not None:
        return hit[1]
    if z3.is_const(term):
        r = frozenset([term.decl().name()]) if term.decl().kind() == z3.Z3_OP_UNINTERPRETED else frozenset()
    else:
        r = frozenset().union(*[term_vars(c) for c in term.children()]) if term.num_args() else frozenset()
    _VARS_CACHE[key] = (term, r)
    return r


def slice_pc(pcs: typing.Sequence[typing.Any], goal: typing.Any) -> typing.List[typing.Any]:
    """the constraints of pcs connected to the goal through shared variables (transitive closure)"""
    want = set(term_vars(goal))
    rest = [(c, term_vars(c)) for c in pcs]
    out: typing.List[typing.Any] = []
    changed = True
    while changed:
        changed = False
        keep = []
        for c, vs in rest:
            if not vs or (vs & want):
                if vs:
                    out.append(c)
                    want |= vs
                    changed = True
            else:
                keep.append((c, vs))
        rest = keep
    return out


CTX: typing.Optional[Ctx] = None


def ctx() -> Ctx:
    assert CTX is not None, "symbolic value used outside explore()"
    return CTX


# ------------------------------------------------------------------------------------------------------------ integers
def _bits_of(v: int) -> int:
    return builtins.int(v).bit_length() + 1


class SymInt:
    __slots__ = ("z", "bits")

    def __init__(self, z: typing.Any, bits: int):
        if bits > W - 1:
            raise Unsupported(f"integer term may need {bits} bits (model width {W})")
        self.z, self.bits = z, bits

    # -- helpers
    @staticmethod
    def lift(o: typing.Any) -> typing.Optional["SymInt"]:
        if isinstance(o, SymInt):
            return o
        if isinstance(o, SymBool):
            return SymInt(z3.If(o.z, z3.BitVecVal(1, W), z3.BitVecVal(0, W)), 2)
        if isinstance(o, (builtins.bool, builtins.int)):
            return SymInt(z3.BitVecVal(builtins.int(o), W), _bits_of(o))
        return None

    def _bin(self, o: typing.Any, f: typing.Callable, bits: typing.Callable, swap: bool = False) -> typing.Any:
        b = SymInt.lift(o)
        if b is None:
            return NotImplemented
        a = self
        if swap:
            a, b = b, a
        return mk_int(f(a.z, b.z), bits(a.bits, b.bits))

    def __add__(self, o): return self._bin(o, lambda a, b: a + b, lambda x, y: max(x, y) + 1)
    def __radd__(self, o): return self._bin(o, lambda a, b: a + b, lambda x, y: max(x, y) + 1, True)
    def __sub__(self, o): return self._bin(o, lambda a, b: a - b, lambda x, y: max(x, y) + 1)
    def __rsub__(self, o): return self._bin(o, lambda a, b: a - b, lambda x, y: max(x, y) + 1, True)
    def __mul__(self, o): return self._bin(o, lambda a, b: a * b, lambda x, y: x + y)
    def __rmul__(self, o): return self._bin(o, lambda a, b: a * b, lambda x, y: x + y, True)
    def __neg__(self): return mk_int(-self.z, self.bits + 1)
    def __pos__(self): return self
    def __invert__(self): return mk_int(~self.z, self.bits)
    def __xor__(self, o): return self._bin(o, lambda a, b: a ^ b, max)
    __rxor__ = __xor__
    def __or__(self, o): return self._bin(o, lambda a, b: a | b, max)
    __ror__ = __or__

    def __and__(self, o):
        if isinstance(o, (builtins.int, builtins.bool)) and o >= 0:
            return mk_int(self.z & z3.BitVecVal(builtins.int(o), W), _bits_of(o))       # masking with a non-negative constant bounds the result
        return self._bin(o, lambda a, b: a & b, max)
    __rand__ = __and__

    def _shift_amount(self, o: typing.Any) -> int:
        if isinstance(o, SymInt):
            o = o.__index__()
        if not isinstance(o, (builtins.int, builtins.bool)):
            raise Unsupported("shift by a non-integer")
        if o < 0:
            raise ValueError("negative shift count")
        return builtins.int(o)

    def __lshift__(self, o):
        n = self._shift_amount(o)
        return mk_int(self.z << n, self.bits + n)

    def __rshift__(self, o):
        n = self._shift_amount(o)
        return mk_int(self.z >> n, max(self.bits - n, 2))                  # arithmetic shift = Python's semantics for negatives

    def __rlshift__(self, o):
        n = self.__index__()
        return o << n

    def __rrshift__(self, o):
        n = self.__index__()
        return o >> n

    def _divmod_const(self, o: typing.Any) -> typing.Tuple[typing.Any, typing.Any, int]:
        if isinstance(o, SymInt):
            o = o.__index__()
        if not isinstance(o, builtins.int) or o <= 0:
            raise Unsupported("division by a non-constant or non-positive value")
        d = z3.BitVecVal(o, W)
        q = z3.If(self.z >= 0, self.z / d, -((-self.z + (d - 1)) / d))       # floor division (bvsdiv truncates towards zero)
        return q, self.z - q * d, o

    def __floordiv__(self, o):
        q, _, _ = self._divmod_const(o)
        return mk_int(q, self.bits)

    def __mod__(self, o):
        _, r, d = self._divmod_const(o)
        return mk_int(r, _bits_of(d))

    def __rfloordiv__(self, o): raise Unsupported("division by a symbolic value")
    def __rmod__(self, o): raise Unsupported("modulo by a symbolic value")
    def __truediv__(self, o): raise Unsupported("true division of a symbolic integer")
    def __rtruediv__(self, o): raise Unsupported("true division by a symbolic integer")

    def __pow__(self, o, m=None):
        if m is None and isinstance(o, builtins.int) and 0 <= o <= 4:
            r: typing.Any = 1
            for _ in range(o):
                r = self * r
            return r
        raise Unsupported("power of a symbolic integer")

    def __rpow__(self, o, m=None):
        return o ** self.__index__()

    def _cmp(self, o: typing.Any, f: typing.Callable) -> typing.Any:
        if isinstance(o, SymFloat):
            return NotImplemented
        b = SymInt.lift(o)
        if b is None:
            if isinstance(o, builtins.float):
                return f(SymFloat(z3.fpSignedToFP(RNE, self.z, F64)).z, z3.FPVal(o, F64)) if False else NotImplemented
            return NotImplemented
        return mk_bool(f(self.z, b.z))

    def __lt__(self, o): return self._cmp(o, lambda a, b: a < b)
    def __le__(self, o): return self._cmp(o, lambda a, b: a <= b)
    def __gt__(self, o): return self._cmp(o, lambda a, b: a > b)
    def __ge__(self, o): return self._cmp(o, lambda a, b: a >= b)

    def __eq__(self, o):
        r = self._cmp(o, lambda a, b: a == b)
        return False if r is NotImplemented else r

    def __ne__(self, o):
        r = self._cmp(o, lambda a, b: a != b)
        return True if r is NotImplemented else r

    __hash__ = None  # type: ignore

    def __bool__(self) -> bool:
        return builtins.bool(mk_bool(self.z != 0))

    def __index__(self) -> int:
        zz = z3.simplify(self.z)
        if z3.is_bv_value(zz):
            return zz.as_signed_long()
        return ctx().concretize(zz)

    def __int__(self) -> int:          # only reached through the *builtin* int(): a C boundary -> split on the feasible values
        return self.__index__()

    def __float__(self) -> float:
        return builtins.float(self.__index__())

    def __repr__(self) -> str:
        return "<symint>"

    __str__ = __repr__

    def __format__(self, spec: str) -> str:
        return "<symint>"


def mk_int(z: typing.Any, bits: int) -> typing.Any:
    zz = z3.simplify(z)
    if z3.is_bv_value(zz):
        return zz.as_signed_long()
    return SymInt(zz, bits)


# ------------------------------------------------------------------------------------------------------------ booleans
class SymBool:
    __slots__ = ("z",)

    def __init__(self, z: typing.Any):
        self.z = z

    def __bool__(self) -> bool:
        zz = z3.simplify(self.z)
        if z3.is_true(zz):
            return True
        if z3.is_false(zz):
            return False
        return ctx().decide(zz)

    def __and__(self, o):
        if isinstance(o, SymBool):
            return mk_bool(z3.And(self.z, o.z))
        if isinstance(o, builtins.bool):
            return self if o else False
        return SymInt.lift(self) & o

    __rand__ = __and__

    def __or__(self, o):
        if isinstance(o, SymBool):
            return mk_bool(z3.Or(self.z, o.z))
        if isinstance(o, builtins.bool):
            return True if o else self
        return SymInt.lift(self) | o

    __ror__ = __or__

    def __invert__(self): return ~SymInt.lift(self)
    def __lshift__(self, o): return SymInt.lift(self) << o
    def __rshift__(self, o): return SymInt.lift(self) >> o
    def __add__(self, o): return SymInt.lift(self) + o
    __radd__ = __add__
    def __mul__(self, o): return SymInt.lift(self) * o
    __rmul__ = __mul__
    def __index__(self) -> int: return builtins.int(builtins.bool(self))
    __int__ = __index__

    def __eq__(self, o):
        if isinstance(o, SymBool):
            return mk_bool(self.z == o.z)
        if isinstance(o, builtins.bool):
            return self if o else mk_bool(z3.Not(self.z))
        if isinstance(o, (builtins.int, SymInt)):
            return SymInt.lift(self) == o
        return False

    def __ne__(self, o):
        r = self.__eq__(o)
        if isinstance(r, SymBool):
            return mk_bool(z3.Not(r.z))
        return not r

    __hash__ = None  # type: ignore

    def __repr__(self) -> str:
        return "<symbool>"

    __str__ = __repr__

    def __format__(self, spec: str) -> str:
        return "<symbool>"


def mk_bool(z: typing.Any) -> typing.Any:
    zz = z3.simplify(z)
    if z3.is_true(zz):
        return True
    if z3.is_false(zz):
        return False
    return SymBool(zz)


# ------------------------------------------------------------------------------------------------------------ floats
class SymFloat:
    """a Python float (IEEE binary64) as a z3 Float64 term"""
    __slots__ = ("z",)

    def __init__(self, z: typing.Any):
        self.z = z

    @staticmethod
    def lift(o: typing.Any) -> typing.Optional[typing.Any]:
        if isinstance(o, SymFloat):
            return o.z
        if isinstance(o, builtins.bool):
            return z3.FPVal(builtins.float(o), F64)
        if isinstance(o, builtins.int):
            if abs(o) > 2 ** 53:
                raise Unsupported("comparison of a symbolic float with a large integer")
            return z3.FPVal(builtins.float(o), F64)
        if isinstance(o, builtins.float):
            return z3.FPVal(o, F64)
        return None

    def _cmp(self, o: typing.Any, f: typing.Callable) -> typing.Any:
        b = SymFloat.lift(o)
        if b is None:
            return NotImplemented
        return mk_bool(f(self.z, b))

    def __lt__(self, o): return self._cmp(o, z3.fpLT)
    def __le__(self, o): return self._cmp(o, z3.fpLEQ)
    def __gt__(self, o): return self._cmp(o, z3.fpGT)
    def __ge__(self, o): return self._cmp(o, z3.fpGEQ)

    def __eq__(self, o):
        r = self._cmp(o, z3.fpEQ)
        return False if r is NotImplemented else r

    def __ne__(self, o):
        r = self._cmp(o, z3.fpNEQ)
        return True if r is NotImplemented else r

    __hash__ = None  # type: ignore

    def __neg__(self): return SymFloat(z3.fpNeg(self.z))
    def __pos__(self): return self
    def __abs__(self): return SymFloat(z3.fpAbs(self.z))
    def __float__(self): raise Unsupported("symbolic float reached a C boundary")
    def __bool__(self): return builtins.bool(mk_bool(z3.Not(z3.fpIsZero(self.z))))

    def _arith(self, *a): raise Unsupported("arithmetic on a symbolic float")
    __add__ = __radd__ = __sub__ = __rsub__ = __mul__ = __rmul__ = __truediv__ = __rtruediv__ = _arith

    def __repr__(self) -> str:
        return "<symfloat>"

    __str__ = __repr__

    def __format__(self, spec: str) -> str:
        return "<symfloat>"


# ------------------------------------------------------------------------------------------------------------ builtin stand-ins
class _IntMeta(type):
    def __instancecheck__(cls, o: typing.Any) -> bool:
        return isinstance(o, (builtins.int, SymInt, SymBool)) and not False

    def __eq__(cls, o): return o is cls or o is builtins.int
    def __hash__(cls): return hash(builtins.int)


class IntProxy(metaclass=_IntMeta):
    """`int` as seen by the code under test"""
    def __new__(cls, x: typing.Any = 0, *a: typing.Any):  # type: ignore
        if isinstance(x, SymInt):
            return x
        if isinstance(x, SymBool):
            return SymInt.lift(x)
        if isinstance(x, SymFloat):
            raise Unsupported("int() of a symbolic float")
        return builtins.int(x, *a)


class _FloatMeta(type):
    def __instancecheck__(cls, o: typing.Any) -> bool:
        return isinstance(o, (builtins.float, SymFloat))

    def __eq__(cls, o): return o is cls or o is builtins.float
    def __hash__(cls): return hash(builtins.float)


class FloatProxy(metaclass=_FloatMeta):
    def __new__(cls, x: typing.Any = 0.0):  # type: ignore
        if isinstance(x, SymFloat):
            return x
        if isinstance(x, SymInt):
            if x.bits > 53:
                raise Unsupported("float() of a wide symbolic integer")
            return SymFloat(z3.fpSignedToFP(RNE, x.z, F64))
        if isinstance(x, SymBool):
            return SymFloat(z3.If(x.z, z3.FPVal(1.0, F64), z3.FPVal(0.0, F64)))
        return builtins.float(x)


class _BoolMeta(type):
    def __instancecheck__(cls, o: typing.Any) -> bool:
        return isinstance(o, (builtins.bool, SymBool))

    def __eq__(cls, o): return o is cls or o is builtins.bool
    def __hash__(cls): return hash(builtins.bool)


class BoolProxy(metaclass=_BoolMeta):
    def __new__(cls, x: typing.Any = False):  # type: ignore
        if isinstance(x, SymBool):
            return x
        if isinstance(x, SymInt):
            return mk_bool(x.z != 0)
        if isinstance(x, SymFloat):
            return mk_bool(z3.Not(z3.fpIsZero(x.z)))
        return builtins.bool(x)


def _pick(a: typing.Any, b: typing.Any, b_wins: typing.Any) -> typing.Any:
    """value of `b if b_wins else a`"""
    if isinstance(b_wins, builtins.bool):
        return b if b_wins else a
    if isinstance(a, (SymFloat, builtins.float)) or isinstance(b, (SymFloat, builtins.float)):
        fa, fb = SymFloat.lift(a), SymFloat.lift(b)
        if isinstance(a, (SymInt,)) or isinstance(b, (SymInt,)):
            raise Unsupported("min/max over mixed symbolic int and float")
        return SymFloat(z3.If(b_wins.z, fb, fa))
    ia, ib = SymInt.lift(a), SymInt.lift(b)
    if ia is None or ib is None:
        return b if builtins.bool(b_wins) else a
    return mk_int(z3.If(b_wins.z, ib.z, ia.z), max(ia.bits, ib.bits))


def sym_min(*args: typing.Any, **kw: typing.Any) -> typing.Any:
    """builtin min(): the first smallest argument (b replaces a iff b < a)"""
    if kw or len(args) < 2:
        return builtins.min(*args, **kw)
    r = args[0]
    for b in args[1:]:
        r = _pick(r, b, b < r)
    return r


def sym_max(*args: typing.Any, **kw: typing.Any) -> typing.Any:
    """builtin max(): the first largest argument (b replaces a iff b > a)"""
    if kw or len(args) < 2:
        return builtins.max(*args, **kw)
    r = args[0]
    for b in args[1:]:
        r = _pick(r, b, b > r)
    return r


class _MemoryviewMeta(type):
    def __instancecheck__(cls, o: typing.Any) -> bool:
        return isinstance(o, builtins.memoryview)

    def __eq__(cls, o): return o is cls or o is builtins.memoryview
    def __hash__(cls): return hash(builtins.memoryview)


class identity_memoryview(metaclass=_MemoryviewMeta):
    """`memoryview` as seen by the code under test: a view of a stand-in array is the array itself; isinstance() keeps its builtin meaning"""
    def __new__(cls, x: typing.Any):  # type: ignore
        if hasattr(x, "raw") and hasattr(x, "dtype"):
            return x
        return builtins.memoryview(x)


STANDINS = dict(int=IntProxy, float=FloatProxy, bool=BoolProxy, min=sym_min, max=sym_max, memoryview=identity_memoryview)


def inject(module: typing.Any, extra: typing.Optional[dict] = None) -> None:
    for k, v in STANDINS.items():
        setattr(module, k, v)
    for k, v in (extra or {}).items():
        setattr(module, k, v)


# ------------------------------------------------------------------------------------------------------------ exploration
class PathResult:
    def __init__(self, pc: typing.List[typing.Any], kind: str, value: typing.Any, decisions: typing.List[typing.Any]):
        self.pc, self.kind, self.value, self.decisions = pc, kind, value, decisions       # kind: 'ok' | 'raise'


def explore(fn: typing.Callable[[], typing.Any], pre: typing.Sequence[typing.Any] = (), max_paths: int = 4000, budget_s: float = 300.0,
            timeout_ms: int = 20000, stats: typing.Optional[dict] = None) -> typing.List[PathResult]:
    """run fn() once per feasible path; exceptions raised by the code under test are path outcomes ('raise'), `Unsupported` propagates"""
    global CTX
    work: typing.List[typing.List[typing.Any]] = [[]]
    out: typing.List[PathResult] = []
    t0 = time.time()
    while work:
        if len(out) >= max_paths:
            raise Unsupported(f"more than {max_paths} paths")
        if time.time() - t0 > budget_s:
            raise Unsupported(f"exploration budget of {budget_s}s exceeded after {len(out)} paths")
        dec = work.pop()
        CTX = Ctx(dec, pre, timeout_ms)
        try:
            try:
                r = ("ok", fn())
            except Unsupported:
                raise
            except Exception as e:  # outcome of the code under test
                r = ("raise", e)
            work += CTX.alts
            out.append(PathResult(list(CTX.pc), r[0], r[1], list(CTX.decisions)))
            if stats is not None:
                stats["solver_s"] = stats.get("solver_s", 0.0) + CTX.solver_s
                stats["solver_calls"] = stats.get("solver_calls", 0) + CTX.calls
        finally:
            CTX = None
    return out
