"""C14, Python target: the bit-level primitives of the generated nunavut_support module (Serializer.add_* / Deserializer.fetch_*),
executed by pysym from a directly constructed state (cursor at an arbitrary bit offset, arbitrary bytes before the cursor) with symbolic
values / buffer contents; one z3 query per (primitive, offset, length, buffer size) against a bit-by-bit statement of the contract:

  Serializer:   bits [off, off+n) become the low n bits of the value (two's complement for negatives; floats: a faithful conversion),
                every bit before the cursor is untouched, every bit after the written range stays zero, the cursor advances by n.
  Deserializer: the value is bits [off, off+n) of the zero-extended buffer (sign-extended for signed reads; floats converted exactly),
                the cursor advances by n, the buffer is not modified.

Shapes (offset, length, sizes) are iterated over the whole stated range; data is symbolic."""
from __future__ import annotations

import builtins
import json
import os
import pathlib
import subprocess
import time
import typing

import pydsdl
import z3

from lib import common
from llsym import dsdlspec as D
from pysym import npshim, pycodec, sym
from pysym.sym import SymBool, SymFloat, SymInt, Unsupported

W = sym.W
CAP = 24           # Serializer.new(CAP): CAP+1 bytes; the largest case (two 64-bit elements at bit offset 23) needs 19


def lengths(tier: str) -> typing.List[int]:
    return [1, 2, 3, 7, 8, 9, 13, 16, 17, 31, 32, 33, 63, 64] if tier == "quick" else list(range(1, 65))


def offsets(tier: str) -> typing.List[int]:
    return list(range(16)) if tier == "quick" else list(range(24))


def bufsizes(tier: str) -> typing.List[int]:
    return [0, 1, 2, 4, 9] if tier == "quick" else list(range(13))


class Case(typing.NamedTuple):
    side: str          # 'ser' | 'des'
    op: str            # method name
    off: int
    n: int             # bit length (or element count for array ops)
    extra: typing.Any  # buffer size (des) / dtype name / None


def cases(tier: str) -> typing.List[Case]:
    out: typing.List[Case] = []
    offs, lens = offsets(tier), lengths(tier)
    al = [o for o in offs if o % 8 == 0]
    for o in al:
        for w in (8, 16, 32, 64):
            out += [Case("ser", f"add_aligned_u{w}", o, w, None), Case("ser", f"add_aligned_i{w}", o, w, None)]
        for n in lens:
            out.append(Case("ser", "add_aligned_unsigned", o, n, None))
            if n >= 2:
                out.append(Case("ser", "add_aligned_signed", o, n, None))
        for w in (16, 32, 64):
            out.append(Case("ser", f"add_aligned_f{w}", o, w, None))
        for k in (0, 1, 3, 8, 10):
            out.append(Case("ser", "add_aligned_array_of_bits", o, k, None))
        for dt in ("uint8", "int16", "uint32", "int64", "float16", "float32", "float64"):
            for k in (0, 1, 2):
                out.append(Case("ser", "add_aligned_array_of_standard_bit_length_primitives", o, k, dt))
        for k in (0, 1, 3):
            out.append(Case("ser", "add_aligned_bytes", o, k, None))
    for o in offs:
        for n in lens:
            out.append(Case("ser", "add_unaligned_unsigned", o, n, None))
            if n >= 2:
                out.append(Case("ser", "add_unaligned_signed", o, n, None))
        for w in (16, 32, 64):
            out.append(Case("ser", f"add_unaligned_f{w}", o, w, None))
        out.append(Case("ser", "add_unaligned_bit", o, 1, None))
        out.append(Case("ser", "pad_to_alignment", o, 8, None))
        for k in (0, 1, 3):
            out.append(Case("ser", "add_unaligned_bytes", o, k, None))
        for k in (0, 1, 3, 8, 10):
            out.append(Case("ser", "add_unaligned_array_of_bits", o, k, None))
        for dt in ("uint8", "int16", "float32"):
            out.append(Case("ser", "add_unaligned_array_of_standard_bit_length_primitives", o, 2, dt))
    for L in bufsizes(tier):
        for o in al:
            for w in (8, 16, 32, 64):
                out += [Case("des", f"fetch_aligned_u{w}", o, w, L), Case("des", f"fetch_aligned_i{w}", o, w, L)]
            for n in lens:
                out.append(Case("des", "fetch_aligned_unsigned", o, n, L))
                if n >= 2:
                    out.append(Case("des", "fetch_aligned_signed", o, n, L))
            for w in (16, 32, 64):
                out.append(Case("des", f"fetch_aligned_f{w}", o, w, L))
            for k in (0, 1, 3, 10):
                out.append(Case("des", "fetch_aligned_array_of_bits", o, k, L))
            for k in (0, 1, 3):
                out.append(Case("des", "fetch_aligned_bytes", o, k, L))
            for dt in ("uint8", "int16", "uint32", "float16", "float64"):
                out.append(Case("des", "fetch_aligned_array_of_standard_bit_length_primitives", o, 2, (L, dt)))
        for o in offs:
            for n in lens:
                out.append(Case("des", "fetch_unaligned_unsigned", o, n, L))
                if n >= 2:
                    out.append(Case("des", "fetch_unaligned_signed", o, n, L))
            for w in (16, 32, 64):
                out.append(Case("des", f"fetch_unaligned_f{w}", o, w, L))
            out.append(Case("des", "fetch_unaligned_bit", o, 1, L))
            for k in (0, 1, 3):
                out.append(Case("des", "fetch_unaligned_bytes", o, k, L))
            for k in (0, 1, 3, 10):
                out.append(Case("des", "fetch_unaligned_array_of_bits", o, k, L))
            for dt in ("int16", "float32"):
                out.append(Case("des", "fetch_unaligned_array_of_standard_bit_length_primitives", o, 2, (L, dt)))
    return out


_FT = {16: pydsdl.FloatType(16, pydsdl.PrimitiveType.CastMode.TRUNCATED), 32: pydsdl.FloatType(32, pydsdl.PrimitiveType.CastMode.TRUNCATED),
       64: pydsdl.FloatType(64, pydsdl.PrimitiveType.CastMode.TRUNCATED)}
_DT = {n: getattr(npshim, n) for n in ("uint8", "int16", "uint32", "int64", "float16", "float32", "float64")}


def _bits_of_bytes(cells: typing.Sequence[typing.Any]) -> typing.List[typing.Any]:
    out = []
    for c in cells:
        t = c if z3.is_bv(c) else npshim._bv(c, 8)
        out += [z3.Extract(k, k, t) for k in range(8)]
    return out


def run_case(ns: typing.Any, c: Case) -> typing.Tuple[str, str, typing.Optional[dict]]:
    """('unsat'|'sat'|'unknown', detail, concrete inputs of a counterexample)"""
    if c.side == "ser":
        return _run_ser(ns, c)
    return _run_des(ns, c)


def _solver() -> z3.Solver:
    s = z3.Solver()
    s.set("timeout", 300000)
    return s


def _run_ser(ns: typing.Any, c: Case) -> typing.Tuple[str, str, typing.Optional[dict]]:
    off, n = c.off, c.n
    nb = CAP + 1
    pre: typing.List[typing.Any] = []
    pbytes = [z3.BitVec(f"p{j}", 8) for j in range((off + 7) // 8)]
    if off % 8:
        pre.append(z3.LShR(pbytes[-1], off % 8) == 0)              # Serializer invariant: nothing at or after the cursor has been written
    vars_: typing.Dict[str, typing.Any] = {f"p{j}": b for j, b in enumerate(pbytes)}
    relation: typing.Optional[typing.Callable] = None
    nbits = n
    if c.op.startswith("add_aligned_f") or c.op.startswith("add_unaligned_f"):
        d = z3.FP("x", z3.Float64())
        vars_["x"] = d
        arg: typing.Any = SymFloat(d)
        valbits = None
        relation = lambda field: D.pyfloat_wire_ok(_FT[n], d, field)      # noqa: E731
    elif c.op in ("add_unaligned_bit",):
        b = z3.BitVec("x", 1)
        vars_["x"] = b
        arg = sym.mk_bool(b == 1)
        valbits = [b]
    elif c.op == "pad_to_alignment":
        arg = 8
        nbits = (-off) % 8
        valbits = [z3.BitVecVal(0, 1)] * nbits
    elif c.op.endswith("array_of_bits"):
        bs = [z3.BitVec(f"x{i}", 1) for i in range(n)]
        vars_.update({f"x{i}": b for i, b in enumerate(bs)})
        arg = npshim.ndarray([sym.mk_bool(b == 1) for b in bs], npshim.bool_)
        valbits = bs
    elif c.op.endswith("_bytes"):
        bs = [z3.BitVec(f"x{i}", 8) for i in range(n)]
        vars_.update({f"x{i}": b for i, b in enumerate(bs)})
        arg = npshim.ndarray([SymInt(z3.ZeroExt(W - 8, b), 9) for b in bs], npshim.uint8)
        valbits = [z3.Extract(k, k, b) for b in bs for k in range(8)]
        nbits = 8 * n
    elif c.op.endswith("standard_bit_length_primitives"):
        dt = _DT[c.extra]
        es = [z3.BitVec(f"x{i}", dt.bits) for i in range(n)]
        vars_.update({f"x{i}": b for i, b in enumerate(es)})
        if dt.kind == "f":
            arg = npshim.ndarray([("fbits", e) for e in es], dt)
        else:
            arg = npshim.ndarray([sym.mk_int(pycodec._ext(e, dt.kind == "i"), dt.bits + 1) for e in es], dt)
        valbits = [z3.Extract(k, k, e) for e in es for k in range(dt.bits)]
        nbits = dt.bits * n
    else:
        signed = "signed" in c.op and "unsigned" not in c.op or c.op.startswith("add_aligned_i")
        if signed:
            v = z3.BitVec("x", n)                               # documented: overflow handling is not implemented for signed values: in range
            arg = sym.mk_int(z3.SignExt(W - n, v), n + 1)
            valbits = [z3.Extract(k, k, v) for k in range(n)]
        else:
            v = z3.BitVec("x", 66)                              # documented: unsigned values are truncated; up to 66 bits wide here
            fixed = c.op.startswith("add_aligned_u") and c.op[-1].isdigit()
            if fixed:
                pre.append(z3.ULT(v, 1 << n))                   # add_aligned_uN: value within N bits (callers saturate/truncate first)
            arg = sym.mk_int(z3.ZeroExt(W - 66, v), 67)
            valbits = [z3.Extract(k, k, v) for k in range(n)]
        vars_["x"] = v

    def run() -> typing.Any:
        s = ns.Serializer.new(CAP)
        for j, b in enumerate(pbytes):
            s._buf[j] = SymInt(z3.ZeroExt(W - 8, b), 9)
        s._bit_offset = off
        m = getattr(s, c.op)
        if c.op in ("add_aligned_unsigned", "add_aligned_signed", "add_unaligned_unsigned", "add_unaligned_signed"):
            m(arg, n)
        else:
            m(arg)
        return s._buf.raw(), s._bit_offset

    try:
        paths = sym.explore(run, pre=pre, budget_s=120.0)
    except Unsupported as e:
        return "unknown", f"unsupported: {e}", None
    solver = _solver()
    for p in paths:
        if p.kind == "raise":
            m = _model(solver, p.pc)
            return "sat", f"raises {type(p.value).__name__}: {str(p.value)[:100]}", _inputs(m, vars_)
        cells, cur = p.value
        if cur != off + nbits or len(cells) != nb:
            return "sat", f"cursor {cur} (expected {off + nbits})", _inputs(_model(solver, p.pc), vars_)
        got = _bits_of_bytes(cells)
        pbits = _bits_of_bytes(pbytes)
        conj = [got[i] == pbits[i] for i in range(off)]
        if relation is not None:
            lg = pycodec.QueryLog()
            m = pycodec.prove_float_field(solver, p.pc, z3.simplify(z3.Concat(*reversed(got[off:off + nbits]))), relation, lg)
            if m is not None:
                return "sat", "written float bits are not a faithful conversion of the value", _inputs(m, vars_)
            if lg.unknown:
                return "unknown", "solver unknown (float conversion)", None
        else:
            conj += [got[off + i] == valbits[i] for i in range(nbits)]
        conj += [got[i] == 0 for i in range(off + nbits, 8 * nb)]
        solver.push()
        for x in p.pc:
            solver.add(x)
        solver.add(z3.Not(z3.And(*conj)))
        r = solver.check()
        m = solver.model() if r == z3.sat else None
        solver.pop()
        if r == z3.sat:
            return "sat", "written bits differ from the contract (addressed bits / bits before the cursor / bits after the range)", _inputs(m, vars_)
        if r != z3.unsat:
            return "unknown", "solver unknown", None
    return "unsat", f"{len(paths)} path(s)", None


def _model(solver: z3.Solver, pc: typing.Sequence[typing.Any]) -> typing.Optional[z3.ModelRef]:
    solver.push()
    for x in pc:
        solver.add(x)
    r = solver.check()
    m = solver.model() if r == z3.sat else None
    solver.pop()
    return m


def _inputs(m: typing.Optional[z3.ModelRef], vars_: dict) -> dict:
    out = {}
    if m is None:
        return out
    for k, v in vars_.items():
        if z3.is_fp(v):
            bv = m.eval(z3.fpToIEEEBV(v), model_completion=True)
            out[k] = "f:%016x" % (bv.as_long() if z3.is_bv_value(bv) else 0x7FF8000000000000)
        else:
            out[k] = m.eval(v, model_completion=True).as_long()
    return out


def _run_des(ns: typing.Any, c: Case) -> typing.Tuple[str, str, typing.Optional[dict]]:
    off, n = c.off, c.n
    L, dtn = (c.extra if isinstance(c.extra, tuple) else (c.extra, None))
    buf0 = [z3.BitVec(f"b{i}", 8) for i in range(L)]
    vars_ = {f"b{i}": b for i, b in enumerate(buf0)}

    def run() -> typing.Any:
        d = ns.Deserializer.new([npshim.ndarray([SymInt(z3.ZeroExt(W - 8, b), 9) for b in buf0], npshim.uint8)])
        d._bit_offset = off
        m = getattr(d, c.op)
        if c.op in ("fetch_aligned_unsigned", "fetch_aligned_signed", "fetch_unaligned_unsigned", "fetch_unaligned_signed") or c.op.endswith("_bytes") or c.op.endswith("array_of_bits"):
            r = m(n)
        elif c.op.endswith("standard_bit_length_primitives"):
            r = m(_DT[dtn], n)
        else:
            r = m()
        return r, d._bit_offset, d._buf._buf.raw()

    try:
        paths = sym.explore(run, budget_s=120.0)
    except Unsupported as e:
        return "unknown", f"unsupported: {e}", None
    solver = _solver()
    rd = D.BitReader(buf0, off)
    if c.op.endswith("_bytes"):
        nbits = 8 * n
    elif c.op.endswith("standard_bit_length_primitives"):
        nbits = _DT[dtn].bits * n
    else:
        nbits = n
    window = rd.read(nbits) if nbits else None
    for p in paths:
        if p.kind == "raise":
            return "sat", f"raises {type(p.value).__name__}: {str(p.value)[:100]}", _inputs(_model(solver, p.pc), vars_)
        val, cur, after = p.value
        conj: typing.List[typing.Any] = []
        if cur != off + nbits:
            return "sat", f"cursor {cur} (expected {off + nbits})", _inputs(_model(solver, p.pc), vars_)
        if len(after) != L:
            return "sat", "buffer length changed", _inputs(_model(solver, p.pc), vars_)
        conj += [npshim._bv(a, 8) == b for a, b in zip(after, buf0)]
        ok: typing.Any = True
        if c.op.startswith("fetch_aligned_f") or c.op.startswith("fetch_unaligned_f"):
            ok = pycodec._py_match(("prim", _FT[n], window), val)
        elif c.op == "fetch_unaligned_bit":
            ok = isinstance(val, (builtins.bool, SymBool)) and ((z3.If(val.z, z3.BitVecVal(1, 1), z3.BitVecVal(0, 1)) if isinstance(val, SymBool) else z3.BitVecVal(int(val), 1)) == window)
        elif c.op.endswith("array_of_bits"):
            cells = val.raw() if isinstance(val, npshim.ndarray) else None
            ok = cells is not None and len(cells) == n and val.dtype is npshim.bool_
            if ok and n:
                ok = z3.And(*[(z3.If(x.z, z3.BitVecVal(1, 1), z3.BitVecVal(0, 1)) if isinstance(x, SymBool) else z3.BitVecVal(int(builtins.bool(x)), 1)) == z3.Extract(i, i, window)
                              for i, x in enumerate(cells)])
        elif c.op.endswith("_bytes"):
            cells = val.raw() if isinstance(val, npshim.ndarray) else None
            ok = cells is not None and len(cells) == n and val.dtype is npshim.uint8
            if ok and n:
                ok = z3.And(*[npshim._bv(x, 8) == z3.Extract(8 * i + 7, 8 * i, window) for i, x in enumerate(cells)])
        elif c.op.endswith("standard_bit_length_primitives"):
            dt = _DT[dtn]
            cells = val.raw() if isinstance(val, npshim.ndarray) else None
            ok = cells is not None and len(cells) == n and val.dtype is dt
            if ok and n:
                cj = []
                for i, x in enumerate(cells):
                    w = z3.Extract(dt.bits * (i + 1) - 1, dt.bits * i, window)
                    if dt.kind == "f":
                        cj.append((x[1] if not isinstance(x[1], builtins.int) else z3.BitVecVal(x[1], dt.bits)) == w)
                    else:
                        xi = SymInt.lift(x)
                        cj.append(xi.z == pycodec._ext(w, dt.kind == "i"))
                ok = z3.And(*cj)
        else:
            signed = ("signed" in c.op and "unsigned" not in c.op) or c.op.startswith("fetch_aligned_i")
            xi = SymInt.lift(val) if not isinstance(val, (builtins.bool, SymBool)) else None
            ok = xi is not None and (xi.z == pycodec._ext(window, signed))
        if ok is False:
            return "sat", "result has the wrong type or length", _inputs(_model(solver, p.pc), vars_)
        if ok is not True:
            conj.append(ok)
        solver.push()
        for x in p.pc:
            solver.add(x)
        solver.add(z3.Not(z3.And(*conj)) if conj else z3.BoolVal(False))
        r = solver.check()
        m = solver.model() if r == z3.sat else None
        solver.pop()
        if r == z3.sat:
            return "sat", "fetched value differs from the bits of the zero-extended buffer", _inputs(m, vars_)
        if r != z3.unsat:
            return "unknown", "solver unknown", None
    return "unsat", f"{len(paths)} path(s)", None


# ---------------------------------------------------------------------------------------------- native replay
NATIVE = r'''
import sys, json, struct
sys.path.insert(0, sys.argv[1])
import numpy as np, nunavut_support as ns
r = json.loads(sys.stdin.read())
c, x = r["case"], r["inputs"]
op, off, n, extra = c["op"], c["off"], c["n"], c["extra"]
def fl(s): return struct.unpack("<d", bytes.fromhex(s[2:])[::-1])[0]
try:
    if c["side"] == "ser":
        s = ns.Serializer.new(24)
        k = 0
        while f"p{k}" in x:
            s._buf[k] = x[f"p{k}"]; k += 1
        s._bit_offset = off
        if "_f" in op and op[-2:] in ("16", "32", "64") and "standard" not in op: a = (fl(x["x"]),)
        elif op == "add_unaligned_bit": a = (bool(x["x"]),)
        elif op == "pad_to_alignment": a = (8,)
        elif op.endswith("array_of_bits"): a = (np.array([bool(x[f"x{i}"]) for i in range(n)], bool),)
        elif op.endswith("_bytes"): a = (np.array([x[f"x{i}"] for i in range(n)], np.uint8),)
        elif op.endswith("standard_bit_length_primitives"):
            dt = np.dtype(extra)
            a = (np.frombuffer(b"".join(int(x[f"x{i}"]).to_bytes(dt.itemsize, "little") for i in range(n)), dtype=dt),)
        elif op.endswith(("_unsigned", "_signed")):
            v = x["x"]
            if op.endswith("_signed") and v >= 1 << (n - 1): v -= 1 << n
            a = (v, n)
        else:
            v = x["x"]
            if "_i" in op and v >= 1 << (n - 1): v -= 1 << n
            a = (v,)
        getattr(s, op)(*a)
        print(json.dumps(dict(ok=True, buf=bytes(s._buf).hex(), cur=int(s._bit_offset))))
    else:
        L = extra[0] if isinstance(extra, list) else extra
        data = bytearray(x[f"b{i}"] for i in range(L))
        d = ns.Deserializer.new([memoryview(data)])
        d._bit_offset = off
        if op.endswith(("_unsigned", "_signed", "_bytes", "array_of_bits")): v = getattr(d, op)(n)
        elif op.endswith("standard_bit_length_primitives"): v = getattr(d, op)(np.dtype(extra[1]).type, n)
        else: v = getattr(d, op)()
        if isinstance(v, np.ndarray):
            out = dict(kind="arr", dtype=str(v.dtype), bytes=v.tobytes().hex(), n=len(v))
        elif isinstance(v, bool): out = dict(kind="bool", v=v)
        elif isinstance(v, float): out = dict(kind="float", v=struct.pack("<d", v)[::-1].hex())
        elif isinstance(v, int): out = dict(kind="int", v=v)
        else: out = dict(kind=type(v).__name__, v=str(v))
        print(json.dumps(dict(ok=True, val=out, cur=int(d._bit_offset), buf=bytes(data).hex())))
except Exception as e:
    print(json.dumps(dict(ok=False, exc=type(e).__name__, msg=str(e)[:200])))
'''


def replay(gen: pathlib.Path, c: Case, inputs: dict) -> typing.Tuple[bool, str]:
    """native run (real numpy); reproduced iff the concrete result violates the contract"""
    env = {k: v for k, v in os.environ.items() if k != "PYTHONPATH"}
    p = subprocess.run([common.PY, "-c", NATIVE, str(gen)], input=json.dumps(dict(case=c._asdict(), inputs=inputs)), stdout=subprocess.PIPE,
                       stderr=subprocess.PIPE, text=True, env=env)
    if p.returncode != 0 or not p.stdout.strip():
        return False, "native driver failed: " + p.stderr[-300:]
    r = json.loads(p.stdout.strip().splitlines()[-1])
    if not r["ok"]:
        nep50 = r["exc"] == "OverflowError" and "out of bounds for" in r.get("msg", "")
        return (not nep50), f"native raises {r['exc']}: {r.get('msg')}"
    off, n = c.off, c.n
    if c.side == "ser":
        got = bytes.fromhex(r["buf"])
        gbits = [(got[i // 8] >> (i % 8)) & 1 for i in range(8 * len(got))]
        pre = [(inputs.get(f"p{i // 8}", 0) >> (i % 8)) & 1 for i in range(off)]
        if c.op.startswith(("add_aligned_f", "add_unaligned_f")):
            nbits = n
            field = sum(b << i for i, b in enumerate(gbits[off:off + n]))
            d = z3.fpBVToFP(z3.BitVecVal(int(inputs["x"][2:], 16), 64), z3.Float64())
            okv = z3.is_true(z3.simplify(D.pyfloat_wire_ok(_FT[n], d, z3.BitVecVal(field, n))))
        else:
            if c.op == "pad_to_alignment":
                vb: typing.List[int] = [0] * ((-off) % 8)
            elif c.op.endswith("array_of_bits") or c.op == "add_unaligned_bit":
                vb = [inputs["x"]] if c.op == "add_unaligned_bit" else [inputs[f"x{i}"] for i in range(n)]
            elif c.op.endswith("_bytes"):
                vb = [(inputs[f"x{i}"] >> k) & 1 for i in range(n) for k in range(8)]
            elif c.op.endswith("standard_bit_length_primitives"):
                w = _DT[c.extra].bits
                vb = [(inputs[f"x{i}"] >> k) & 1 for i in range(n) for k in range(w)]
            else:
                vb = [(inputs["x"] >> k) & 1 for k in range(n)]
            nbits = len(vb)
            okv = gbits[off:off + nbits] == vb
        ok = okv and gbits[:off] == pre and not any(gbits[off + nbits:]) and r["cur"] == off + nbits
        return (not ok), f"native buffer {r['buf']} cursor {r['cur']}"
    L = c.extra[0] if isinstance(c.extra, tuple) else c.extra
    data = bytes(inputs[f"b{i}"] for i in range(L))
    zbit = lambda i: (data[i // 8] >> (i % 8)) & 1 if i < 8 * L else 0       # noqa: E731
    v = r["val"]
    if c.op.endswith("_bytes"):
        nbits = 8 * n
    elif c.op.endswith("standard_bit_length_primitives"):
        nbits = _DT[c.extra[1]].bits * n
    else:
        nbits = n
    win = sum(zbit(off + i) << i for i in range(nbits))
    if v["kind"] == "arr":
        if c.op.endswith("array_of_bits"):
            ok = v["dtype"] == "bool" and v["n"] == n and list(bytes.fromhex(v["bytes"])) == [(win >> i) & 1 for i in range(n)]
        else:
            ok = bytes.fromhex(v["bytes"]) == win.to_bytes((nbits + 7) // 8, "little") and v["n"] == n
    elif v["kind"] == "bool":
        ok = c.op == "fetch_unaligned_bit" and int(v["v"]) == win
    elif v["kind"] == "float":
        act = SymFloat(z3.fpBVToFP(z3.BitVecVal(int(v["v"], 16), 64), z3.Float64()))
        ok = z3.is_true(z3.simplify(pycodec._py_match(("prim", _FT[n], z3.BitVecVal(win, n)), act)))
    elif v["kind"] == "int":
        signed = ("signed" in c.op and "unsigned" not in c.op) or c.op.startswith("fetch_aligned_i")
        exp = win - (1 << n) if signed and win >> (n - 1) else win
        ok = v["v"] == exp
    else:
        ok = False
    ok = ok and r["cur"] == off + nbits and r["buf"] == data.hex()
    return (not ok), f"native value {v} cursor {r['cur']}"
