"""A pure-Python stand-in for the part of numpy (and struct) that generated Python codecs and nunavut_support use, able to carry the
symbolic values of pysym/sym.py.  It is a STUB of numpy's documented behaviour and part of the trusted base of the E4 checks; it is
validated on every run by co-simulation: the same generated code is executed on concrete inputs under the real numpy wheel and under
this shim, and the results must agree (pysym/pycodec.py, `cosimulate`).

Modelling decisions (stated in the evidence):
  * one-dimensional arrays only; slices alias their parent (a forked Serializer writes through to the parent buffer);
  * integer elements read from an array are Python ints (numpy ~= 1.24, the version the repository declares for generated code,
    promotes by value, so scalar arithmetic with Python ints agrees with Python int arithmetic wherever the generated code uses it;
    the stricter NEP-50 overflow errors of numpy >= 2 are not modelled);
  * storing an integer outside the element type's range raises OverflowError (numpy >= 2; numpy 1.24 wraps and warns);
  * float16/32/64 *array* elements are carried as bit patterns; Python floats (scalars) are z3 Float64 terms;
  * struct.pack/unpack of '<e' '<f' '<d' follow CPython: round-to-nearest-even, OverflowError when a finite value rounds to infinity."""
from __future__ import annotations

import builtins
import math
import sys
import types
import typing

import z3

from pysym import sym
from pysym.sym import SymBool, SymFloat, SymInt, Unsupported

W = sym.W


class DType:
    def __init__(self, name: str, kind: str, bits: int):
        self.name, self.kind, self.bits = name, kind, bits
        self.itemsize = max(bits // 8, 1)

    def __call__(self, x: typing.Any = 0) -> typing.Any:
        return x

    def __repr__(self) -> str:
        return f"dtype('{self.name}')"

    def __eq__(self, o: typing.Any) -> bool:
        return _dt(o, none_ok=True) is self

    def __ne__(self, o: typing.Any) -> bool:
        return not self.__eq__(o)

    def __hash__(self) -> int:
        return hash(self.name)

    @property
    def lo(self) -> int:
        return -(1 << (self.bits - 1)) if self.kind == "i" else 0

    @property
    def hi(self) -> int:
        return (1 << (self.bits - 1)) - 1 if self.kind == "i" else (1 << self.bits) - 1


uint8, uint16, uint32, uint64 = (DType(f"uint{b}", "u", b) for b in (8, 16, 32, 64))
int8, int16, int32, int64 = (DType(f"int{b}", "i", b) for b in (8, 16, 32, 64))
float16, float32, float64 = (DType(f"float{b}", "f", b) for b in (16, 32, 64))
bool_ = DType("bool", "b", 8)
object_ = DType("object", "O", 64)
inf = math.inf
nan = math.nan


def _dt(d: typing.Any, none_ok: bool = False) -> typing.Any:
    if isinstance(d, DType):
        return d
    if d is builtins.bool or d is sym.BoolProxy:
        return bool_
    if d is builtins.object:
        return object_
    if d is builtins.int or d is sym.IntProxy:
        return int64
    if d is builtins.float or d is sym.FloatProxy:
        return float64
    if isinstance(d, str):
        names = {x.name: x for x in (uint8, uint16, uint32, uint64, int8, int16, int32, int64, float16, float32, float64, bool_, object_)}
        if d in names:
            return names[d]
        code = d[1:] if d[:1] in "<=|" else d                       # little-endian / native / not applicable (this host is little-endian)
        if len(code) == 2 and code[0] in "uif" and code[1] in "1248":
            nm = {"u": "uint", "i": "int", "f": "float"}[code[0]] + str(8 * int(code[1]))
            if nm in names:
                return names[nm]
    if none_ok:
        return None
    raise Unsupported(f"dtype {d!r}")


def dtype(d: typing.Any) -> DType:
    return _dt(d)


class _Flags:
    writeable = True


class ndarray:
    """1-D array view: (shared store, offset, length, dtype).  Cells: uint/int -> int|SymInt ; bool -> bool|SymBool ;
    float -> ('fbits', int | z3 BitVec of dtype.bits) ; object -> anything"""

    def __init__(self, store: list, dt: DType, off: int = 0, n: typing.Optional[int] = None):
        self._s, self.dtype, self._o = store, dt, off
        self._n = len(store) - off if n is None else n
        self.flags = _Flags()
        self.ndim = 1

    # -- shape
    def __len__(self) -> int: return self._n
    @property
    def size(self) -> int: return self._n
    @property
    def shape(self) -> tuple: return (self._n,)
    @property
    def nbytes(self) -> int: return self._n * self.dtype.itemsize
    @property
    def data(self) -> "ndarray": return self
    @property
    def base(self) -> typing.Any: return None

    def _idx(self, i: typing.Any) -> int:
        i = i.__index__() if not isinstance(i, builtins.int) else i
        if i < 0:
            i += self._n
        if not 0 <= i < self._n:
            raise IndexError(f"index {i} is out of bounds for axis 0 with size {self._n}")
        return i

    def __getitem__(self, i: typing.Any) -> typing.Any:
        if isinstance(i, slice):
            a, b, st = i.indices(self._n)
            if st != 1:
                raise Unsupported("strided slice")
            return ndarray(self._s, self.dtype, self._o + a, max(0, b - a))
        v = self._s[self._o + self._idx(i)]
        return _scalar_out(v, self.dtype)

    def __setitem__(self, i: typing.Any, v: typing.Any) -> None:
        if not self.flags.writeable:
            raise ValueError("assignment destination is read-only")
        if isinstance(i, slice):
            a, b, st = i.indices(self._n)
            if st != 1:
                raise Unsupported("strided slice")
            n = max(0, b - a)
            vs = [_cell_in(x, self.dtype) for x in (v._cells() if isinstance(v, ndarray) else list(v))] if _is_seq(v) else [_cell_in(v, self.dtype)] * n
            if len(vs) != n:
                raise ValueError(f"could not broadcast input array from shape ({len(vs)},) into shape ({n},)")
            for k, x in enumerate(vs):
                self._s[self._o + a + k] = x
            return
        self._s[self._o + self._idx(i)] = _cell_in(v, self.dtype)

    def _cells(self) -> list:
        return [_scalar_out(self._s[self._o + k], self.dtype) for k in range(self._n)]

    def raw(self) -> list:
        return [self._s[self._o + k] for k in range(self._n)]

    def __iter__(self) -> typing.Iterator:
        return iter(self._cells())

    def tolist(self) -> list:
        return self._cells()

    def flatten(self) -> "ndarray":
        return ndarray(self.raw(), self.dtype)

    def copy(self) -> "ndarray":
        return ndarray(self.raw(), self.dtype)

    def astype(self, dtype: typing.Any = None, **kw: typing.Any) -> "ndarray":
        d = _dt(dtype)
        return ndarray([_cell_in(_scalar_out(c, self.dtype), d) for c in self.raw()], d)

    def view(self, d: typing.Any) -> "ndarray":
        d = _dt(d)
        if d is self.dtype:
            return self
        if d is not uint8:
            if self.dtype is uint8 and d.kind in "uif":
                return frombuffer(self, d)                            # reinterpret the bytes (little-endian host)
            raise Unsupported("view() between two non-byte types")
        out: list = []
        for c in self.raw():
            out += _to_le_bytes(c, self.dtype)
        return ndarray(out, uint8)

    def tobytes(self) -> bytes:
        cells = self.view(uint8).raw() if self.dtype is not uint8 else self.raw()
        if any(not isinstance(x, builtins.int) for x in cells):
            raise Unsupported("tobytes() of an array with symbolic contents")
        return builtins.bytes(cells)

    def __eq__(self, o: typing.Any) -> typing.Any:  # elementwise comparisons are only used by nunavut_support's own unit tests
        raise Unsupported("elementwise array comparison")

    __hash__ = None  # type: ignore

    def __repr__(self) -> str:
        return f"<shim ndarray {self.dtype.name}[{self._n}]>"


def _is_seq(v: typing.Any) -> bool:
    return isinstance(v, (ndarray, list, tuple, bytes, bytearray))


def _scalar_out(v: typing.Any, d: DType) -> typing.Any:
    """element as seen by code that reads it out of the array: float16/32/64 scalars behave as Python floats (exact widening)"""
    if d.kind == "f" and isinstance(v, tuple) and v and v[0] == "fbits":
        srt = {16: z3.Float16(), 32: z3.Float32(), 64: z3.Float64()}[d.bits]
        bits = v[1] if not isinstance(v[1], builtins.int) else z3.BitVecVal(v[1], d.bits)
        f = z3.fpBVToFP(bits, srt)
        return SymFloat(f if d.bits == 64 else z3.fpFPToFP(sym.RNE, f, sym.F64))
    return v


def _fits(v: typing.Any, d: DType) -> typing.Any:
    return sym.mk_bool(z3.And(v.z >= d.lo, v.z <= d.hi))


def _cell_in(v: typing.Any, d: DType) -> typing.Any:
    """value as stored into an array of element type d"""
    if d.kind == "O":
        return v
    if d.kind == "b":
        if isinstance(v, (SymBool, builtins.bool)):
            return v
        if isinstance(v, SymInt):
            return sym.mk_bool(v.z != 0)
        return builtins.bool(v)
    if d.kind in "ui":
        if isinstance(v, SymBool):
            v = SymInt.lift(v)
        if isinstance(v, SymInt):
            ok = _fits(v, d)
            if not builtins.bool(ok):
                raise OverflowError(f"Python integer out of bounds for {d.name}")
            return v
        if isinstance(v, builtins.float) or isinstance(v, SymFloat):
            raise Unsupported("float stored into an integer array")
        v = builtins.int(v)
        if not d.lo <= v <= d.hi:
            raise OverflowError(f"Python integer {v} out of bounds for {d.name}")
        return v
    # float arrays hold bit patterns
    if isinstance(v, tuple) and v and v[0] == "fbits":
        return v
    if isinstance(v, SymFloat):
        srt = {16: z3.Float16(), 32: z3.Float32(), 64: z3.Float64()}[d.bits]
        y = _narrow(v.z, srt)
        if z3.is_app(y) and y.decl().kind() == z3.Z3_OP_FPA_TO_FP and y.num_args() == 1 and z3.is_bv(y.arg(0)):
            return ("fbits", y.arg(0))           # the value was read from a bit pattern: storing it back keeps the pattern (NaN payloads aside)
        return ("fbits", z3.simplify(z3.fpToIEEEBV(y)))
    if isinstance(v, (builtins.int, builtins.float)):
        return ("fbits", _fp_to_bits(z3.FPVal(builtins.float(v), sym.F64), d.bits, overflow_to_inf=True))
    raise Unsupported(f"cannot store {type(v).__name__} into a {d.name} array")


def _bv(v: typing.Any, bits: int) -> typing.Any:
    if isinstance(v, SymInt):
        return z3.Extract(bits - 1, 0, v.z)
    if isinstance(v, SymBool):
        return z3.If(v.z, z3.BitVecVal(1, bits), z3.BitVecVal(0, bits))
    return z3.BitVecVal(builtins.int(v), bits)


def _byte_cell(term: typing.Any) -> typing.Any:
    t = z3.simplify(term)
    if z3.is_bv_value(t):
        return t.as_long()
    return SymInt(z3.ZeroExt(W - 8, t), 9)


def _to_le_bytes(c: typing.Any, d: DType) -> list:
    if d.kind == "b":
        return [_byte_cell(_bv(c, 8))]
    if d.kind == "f":
        term = c[1] if not isinstance(c[1], builtins.int) else z3.BitVecVal(c[1], d.bits)
    elif d.kind in "ui":
        term = _bv(c, d.bits)
    else:
        raise Unsupported("byte view of an object array")
    return [_byte_cell(z3.Extract(8 * k + 7, 8 * k, term)) for k in range(d.bits // 8)]


def _from_le_bytes(bs: typing.Sequence[typing.Any], d: DType) -> typing.Any:
    term = z3.Concat(*[_bv(b, 8) for b in reversed(bs)]) if len(bs) > 1 else _bv(bs[0], 8)
    term = z3.simplify(term)
    if d.kind == "f":
        return ("fbits", term.as_long() if z3.is_bv_value(term) else term)
    if d.kind == "u":
        return sym.mk_int(z3.ZeroExt(W - d.bits, term), d.bits + 1)
    if d.kind == "i":
        return sym.mk_int(z3.SignExt(W - d.bits, term), d.bits + 1)
    if d.kind == "b":
        return sym.mk_bool(term != 0)
    raise Unsupported("frombuffer into an object array")


# ---------------------------------------------------------------------------------------------- constructors and functions
def zeros(n: typing.Any, dtype: typing.Any = float64) -> ndarray:
    d = _dt(dtype)
    n = n.__index__() if not isinstance(n, builtins.int) else n
    z: typing.Any = 0 if d.kind in "ui" else (False if d.kind == "b" else (("fbits", 0) if d.kind == "f" else 0))
    return ndarray([z] * n, d)


def empty(n: typing.Any, dtype: typing.Any = float64) -> ndarray:
    d = _dt(dtype)
    n = n.__index__() if not isinstance(n, builtins.int) else n
    return ndarray([None] * n if d.kind == "O" else zeros(n, d).raw(), d)      # numpy.empty: indeterminate; every use site overwrites


def array(x: typing.Any, dtype: typing.Any = None, **kw: typing.Any) -> ndarray:
    if isinstance(x, ndarray):
        d = x.dtype if dtype is None else _dt(dtype)
        return x.astype(d) if d is not x.dtype else x.copy()
    if dtype is None:
        raise Unsupported("numpy.array without dtype")
    d = _dt(dtype)
    return ndarray([_cell_in(v, d) for v in list(x)], d)


def frombuffer(buf: typing.Any, dtype: typing.Any = float64, count: int = -1, offset: int = 0) -> ndarray:
    d = _dt(dtype)
    if isinstance(buf, ndarray):
        if buf.dtype is not uint8:
            buf = buf.view(uint8)
        cells = buf.raw()
    elif isinstance(buf, SymBytes):
        cells = list(buf.cells)
    elif isinstance(buf, (bytes, bytearray)):
        cells = list(buf)
    else:
        raise Unsupported(f"frombuffer({type(buf).__name__})")
    cells = cells[offset:]
    if d is uint8:
        out = ndarray(cells if isinstance(buf, SymBytes) or not isinstance(buf, ndarray) else buf._s, uint8,
                      0 if isinstance(buf, SymBytes) or not isinstance(buf, ndarray) else buf._o + offset, len(cells))
    else:
        k = d.itemsize
        if count < 0 and len(cells) % k:
            raise ValueError("buffer size must be a multiple of element size")
        n = len(cells) // k if count < 0 else count
        if n * k > len(cells):
            raise ValueError("buffer is smaller than requested size")
        out = ndarray([_from_le_bytes(cells[i * k:(i + 1) * k], d) for i in range(n)], d)
    if count >= 0 and d is uint8:
        out = out[:count]
    return out


def concatenate(arrs: typing.Sequence[ndarray], **kw: typing.Any) -> ndarray:
    d = arrs[0].dtype
    out: list = []
    for a in arrs:
        if a.dtype is not d:
            raise Unsupported("concatenate of mixed dtypes")
        out += a.raw()
    return ndarray(out, d)


def packbits(x: typing.Any, bitorder: str = "big", **kw: typing.Any) -> ndarray:
    if bitorder != "little":
        raise Unsupported("packbits(bitorder='big')")
    cells = x.raw() if isinstance(x, ndarray) else list(x)
    out = []
    for i in range(0, len(cells), 8):
        grp = cells[i:i + 8]
        bits = [z3.If(c.z, z3.BitVecVal(1, 1), z3.BitVecVal(0, 1)) if isinstance(c, SymBool)
                else (z3.If(c.z != 0, z3.BitVecVal(1, 1), z3.BitVecVal(0, 1)) if isinstance(c, SymInt) else z3.BitVecVal(1 if c else 0, 1)) for c in grp]
        bits += [z3.BitVecVal(0, 1)] * (8 - len(bits))
        out.append(_byte_cell(z3.Concat(*reversed(bits))))
    return ndarray(out, uint8)


def unpackbits(x: typing.Any, bitorder: str = "big", **kw: typing.Any) -> ndarray:
    if bitorder != "little":
        raise Unsupported("unpackbits(bitorder='big')")
    if x.dtype is not uint8:
        raise TypeError("Expected an input array of unsigned byte data type")
    out = []
    for c in x.raw():
        t = _bv(c, 8)
        for k in range(8):
            out.append(_byte_cell(z3.ZeroExt(7, z3.Extract(k, k, t))))
    return ndarray(out, uint8)


def isfinite(x: typing.Any) -> typing.Any:
    if isinstance(x, SymFloat):
        return sym.mk_bool(z3.Not(z3.Or(z3.fpIsInf(x.z), z3.fpIsNaN(x.z))))
    if isinstance(x, (SymInt, SymBool)):
        return True
    if isinstance(x, ndarray):
        raise Unsupported("isfinite over an array")
    return math.isfinite(x)


def array2string(*a: typing.Any, **kw: typing.Any) -> str:
    return "<array>"


# ---------------------------------------------------------------------------------------------- struct
class SymBytes:
    """result of struct.pack: a sequence of byte cells"""
    def __init__(self, cells: typing.Sequence[typing.Any]):
        self.cells = list(cells)

    def __len__(self) -> int:
        return len(self.cells)

    def __iter__(self) -> typing.Iterator:
        return iter(self.cells)


_FMT = {"e": (16, z3.Float16()), "f": (32, z3.Float32()), "d": (64, z3.Float64())}


def _fp_to_bits(x64: typing.Any, bits: int, overflow_to_inf: bool) -> typing.Any:
    """IEEE bit pattern of the Float64 term converted (round to nearest even) to `bits` wide; NaN maps to the canonical quiet NaN with
    the sign bit left unconstrained?  No: CPython/numpy keep the sign and quieten the payload; z3's fpToIEEEBV picks one NaN encoding, so
    callers compare NaN results through `is-NaN`, never bit by bit."""
    srt = {16: z3.Float16(), 32: z3.Float32(), 64: z3.Float64()}[bits]
    y = x64 if bits == 64 else z3.fpFPToFP(sym.RNE, x64, srt)
    return z3.simplify(z3.fpToIEEEBV(y))


def _is_widened_from(x64: typing.Any, srt: typing.Any) -> bool:
    """x64 is syntactically the exact widening of a value of sort srt (then narrowing it back is the identity)"""
    return z3.is_app(x64) and x64.decl().kind() == z3.Z3_OP_FPA_TO_FP and x64.num_args() == 2 and z3.is_fp(x64.arg(1)) and x64.arg(1).sort() == srt


def _narrow(x64: typing.Any, srt: typing.Any) -> typing.Any:
    if srt == sym.F64:
        return x64
    if _is_widened_from(x64, srt):
        return x64.arg(1)
    return z3.fpFPToFP(sym.RNE, x64, srt)


class StructShim:
    """struct.pack / struct.unpack for the three little-endian float formats used by nunavut_support"""
    error = Exception

    @staticmethod
    def pack(fmt: str, x: typing.Any) -> typing.Any:
        if not (len(fmt) == 2 and fmt[0] == "<" and fmt[1] in _FMT):
            raise Unsupported(f"struct.pack format {fmt!r}")
        bits, srt = _FMT[fmt[1]]
        if isinstance(x, (builtins.int, builtins.float)) and not isinstance(x, builtins.bool):
            import struct as _real
            return SymBytes(list(_real.pack(fmt, x)))
        if isinstance(x, (SymInt, SymBool)):
            x = sym.FloatProxy(x)
        if not isinstance(x, SymFloat):
            raise TypeError("required argument is not a float")
        if bits < 64 and not _is_widened_from(x.z, srt):
            y = z3.fpFPToFP(sym.RNE, x.z, srt)
            overflow = sym.mk_bool(z3.And(z3.fpIsInf(y), z3.Not(z3.fpIsInf(x.z))))
            if builtins.bool(overflow):
                raise OverflowError("float too large to pack with %s format" % fmt[1])
        y = _narrow(x.z, srt)
        term = z3.simplify(z3.fpToIEEEBV(y))
        return SymBytes([_byte_cell(z3.Extract(8 * k + 7, 8 * k, term)) for k in range(bits // 8)])

    @staticmethod
    def unpack(fmt: str, buf: typing.Any) -> tuple:
        if not (len(fmt) == 2 and fmt[0] == "<" and fmt[1] in _FMT):
            raise Unsupported(f"struct.unpack format {fmt!r}")
        bits, srt = _FMT[fmt[1]]
        cells = buf.raw() if isinstance(buf, ndarray) else list(buf.cells if isinstance(buf, SymBytes) else buf)
        if len(cells) != bits // 8:
            raise StructShim.error(f"unpack requires a buffer of {bits // 8} bytes")
        term = z3.simplify(z3.Concat(*[_bv(b, 8) for b in reversed(cells)]))
        if z3.is_app(term) and term.decl().kind() == z3.Z3_OP_FPA_TO_IEEE_BV and term.arg(0).sort() == srt:
            f = term.arg(0)                 # the bytes are the encoding of a known value: decoding it gives that value (NaN payloads aside)
        else:
            f = z3.fpBVToFP(term, srt)
        return (SymFloat(f if bits == 64 else z3.fpFPToFP(sym.RNE, f, sym.F64)),)


# ---------------------------------------------------------------------------------------------- installation
def install() -> types.ModuleType:
    """put the shim into sys.modules as `numpy` / `numpy.typing` (must happen before the generated code is imported)"""
    if "numpy" in sys.modules and not getattr(sys.modules["numpy"], "_PYSYM_SHIM", False):
        raise RuntimeError("the real numpy is already imported in this process")
    m = types.ModuleType("numpy")
    m._PYSYM_SHIM = True  # type: ignore
    for k, v in globals().items():
        if k in ("uint8", "uint16", "uint32", "uint64", "int8", "int16", "int32", "int64", "float16", "float32", "float64", "bool_", "object_",
                 "inf", "nan", "ndarray", "dtype", "zeros", "empty", "array", "frombuffer", "concatenate", "packbits", "unpackbits", "isfinite",
                 "array2string"):
            setattr(m, k, v)
    m.__version__ = "0.0-pysym-shim"  # type: ignore
    t = types.ModuleType("numpy.typing")

    class _NDArray:
        def __class_getitem__(cls, item: typing.Any) -> typing.Any:
            return cls
    t.NDArray = _NDArray  # type: ignore
    t.ArrayLike = typing.Any  # type: ignore
    m.typing = t  # type: ignore
    sys.modules["numpy"] = m
    sys.modules["numpy.typing"] = t
    return m
