"""Regenerates code with /repo's current nunavut and lowers it to LLVM IR with the installed clang 14.  Nothing is cached."""
from __future__ import annotations

import os
import pathlib
import subprocess
import typing

from lib import common

CLANG = "clang-14" if os.path.exists("/usr/bin/clang-14") else "clang"
CLANGXX = "clang++-14" if os.path.exists("/usr/bin/clang++-14") else "clang++"
OPT = "opt-14" if os.path.exists("/usr/bin/opt-14") else "opt"


class BuildError(Exception):
    pass


def run(cmd: typing.List[str], cwd: typing.Optional[str] = None, env: typing.Optional[dict] = None) -> str:
    p = subprocess.run(cmd, cwd=cwd, env=env, stdout=subprocess.PIPE, stderr=subprocess.PIPE, text=True)
    if p.returncode != 0:
        raise BuildError(f"{' '.join(cmd[:6])}... rc={p.returncode}\n{p.stderr[-2000:]}")
    return p.stdout


def nnvg(lang: str, outdir: pathlib.Path, root: typing.Optional[pathlib.Path], lookups: typing.Sequence[pathlib.Path] = (),
         opts: typing.Optional[dict] = None, extra: typing.Sequence[str] = ()) -> None:
    """opts: target_endianness, asserts(bool), override_capacity(bool), omit_float(bool), std(str)"""
    opts = opts or {}
    cmd = [common.PY, "-m", "nunavut", "--target-language", lang, "-O", str(outdir)]
    if lang not in ("c",):
        cmd.append("--experimental-languages")
    if opts.get("target_endianness"):
        cmd += ["--target-endianness", opts["target_endianness"]]
    if opts.get("asserts"):
        cmd.append("--enable-serialization-asserts")
    if opts.get("override_capacity"):
        cmd.append("--enable-override-variable-array-capacity")
    if opts.get("omit_float"):
        cmd.append("--omit-float-serialization-support")
    if opts.get("std"):
        cmd += ["--language-standard", opts["std"]]
    for l in lookups:
        cmd += ["-I", str(l)]
    cmd += list(extra)
    if root is None:
        cmd += ["--generate-support", "only", str(common.VERIF / "data" / "ns1" / "vt")]    # positional root is required by the CLI but unused
    else:
        cmd.append(str(root))
    env = dict(os.environ)
    env.pop("VERIF_UNDER_CROSSHAIR", None)
    run(cmd, env=env)


def c_to_ir(src: pathlib.Path, incs: typing.Sequence[pathlib.Path], variant: str, defines: typing.Sequence[str] = (),
            cxx: bool = False, std: typing.Optional[str] = None) -> str:
    """variant 'A': -O0 + mem2reg (every IR op is an evaluated source op; nsw intact) -- UB obligations.
       variant 'B': -O1 without vectorisation/unrolling (saturation diamonds become selects) -- functional equivalence."""
    cc = CLANGXX if cxx else CLANG
    std = std or ("c++14" if cxx else "c11")
    base = [cc, f"-std={std}", "-S", "-emit-llvm", "-o", "-", str(src), "-fno-discard-value-names", "-Wno-everything"]
    if cxx:
        base += ["-fno-exceptions", "-fno-rtti"]
    for i in incs:
        base += ["-I", str(i)]
    for d in defines:
        base.append("-D" + d)
    if variant == "A":
        ir = run(base + ["-O0", "-Xclang", "-disable-O0-optnone"])
        p = subprocess.run([OPT, "-S", "-mem2reg"], input=ir, stdout=subprocess.PIPE, stderr=subprocess.PIPE, text=True)
        if p.returncode != 0:
            raise BuildError("opt -mem2reg failed: " + p.stderr[-500:])
        return p.stdout
    return run(base + ["-O1", "-fno-vectorize", "-fno-slp-vectorize", "-fno-unroll-loops", "-fno-builtin"])


def native(src: pathlib.Path, out: pathlib.Path, incs: typing.Sequence[pathlib.Path], defines: typing.Sequence[str] = (),
           cxx: bool = False, sanitize: bool = False, std: typing.Optional[str] = None) -> pathlib.Path:
    cc = ("g++" if cxx else "gcc") if not sanitize else (CLANGXX if cxx else CLANG)
    std = std or ("c++14" if cxx else "c11")
    cmd = [cc, f"-std={std}", "-O1", "-g", "-o", str(out), str(src), "-lm"]
    if sanitize:
        cmd += ["-fsanitize=address,undefined", "-fno-sanitize-recover=all", "-fno-omit-frame-pointer"]
    for i in incs:
        cmd += ["-I", str(i)]
    for d in defines:
        cmd.append("-D" + d)
    run(cmd)
    return out
