"""The 'programs' dimension: a finite corpus of DSDL types, one small type per template feature (DESIGN.md section 3).
Each entry: (short name, DSDL text, features it is meant to reach).  Root namespace: `vt`."""
from __future__ import annotations

import pathlib
import random
import typing

Entry = typing.Tuple[str, str, str]


def _prims() -> typing.List[Entry]:
    out: typing.List[Entry] = []
    # every primitive kind x representative widths x cast mode x preceding bit offset (aligned fast path vs generic path)
    k = 0
    for pre in (0, 1, 3, 7):
        for ty in ("saturated uint3", "truncated uint3", "saturated uint8", "truncated uint8", "saturated uint13", "truncated uint17",
                   "saturated uint32", "saturated uint33", "truncated uint64", "saturated int2", "saturated int7", "saturated int8",
                   "saturated int13", "saturated int16", "saturated int31", "saturated int64", "bool",
                   "saturated float16", "truncated float16", "saturated float32", "truncated float32", "saturated float64", "truncated float64"):
            # not every combination at every offset: rotate
            k += 1
            if pre in (1, 7) and (k % 3):
                continue
            if pre == 3 and (k % 2):
                continue
            name = "P%d_%s" % (pre, ty.replace("saturated ", "s").replace("truncated ", "t"))
            if ty == "bool":
                name = "P%d_bool" % pre
            body = (f"void{pre}\n" if pre else "") + f"{ty} v\nuint5 tail\n@sealed\n"
            out.append((name, body, f"primitive {ty} at bit offset {pre}"))
    return out


def _wide_widths() -> typing.List[Entry]:
    out = []
    for w in (1, 2, 7, 9, 16, 31, 63):
        out.append((f"W_u{w}", f"uint2 pre\nsaturated uint{w} v\n@sealed\n", f"unsigned width {w} unaligned"))
    for w in (2, 9, 17, 32, 33, 63):
        out.append((f"W_i{w}", f"saturated int{w} v\nuint3 gap\nsaturated int{w} w\n@sealed\n", f"signed width {w}"))
    return out


def _arrays() -> typing.List[Entry]:
    return [
        ("A_u8v", "uint8[<=3] a\n@sealed\n", "variable array of bytes (memmove fast path), aligned"),
        ("A_u8v_un", "uint3 pre\nuint8[<=3] a\nuint5 post\n@sealed\n", "variable array of bytes, unaligned"),
        ("A_u8f", "uint8[3] a\nuint8 z\n@sealed\n", "fixed array of bytes"),
        ("A_i16v", "int16[<=2] a\n@sealed\n", "variable array of zero-cost 16-bit"),
        ("A_u12v", "uint12[<=3] a\n@sealed\n", "variable array of non-zero-cost primitives"),
        ("A_i5f_sat", "saturated int5[3] a\n@sealed\n", "fixed array of saturated signed"),
        ("A_u4f2", "uint4[2] a\nuint8 z\n@sealed\n", "fixed array of sub-byte elements starting aligned whose END is byte-aligned (only the first element is aligned)"),
        ("A_i12f2", "saturated int12[2] a\nuint8 z\n@sealed\n", "fixed array of 12-bit elements, aligned start and end, second element unaligned"),
        ("A_u6f4", "uint6[4] a\n@sealed\n", "fixed array of 6-bit elements, 24 bits in total"),
        ("A_boolv", "bool[<=10] a\n@sealed\n", "variable bit array (bitpacked)"),
        ("A_boolf_un", "uint3 pre\nbool[9] a\n@sealed\n", "fixed bit array unaligned"),
        ("A_f16v", "float16[<=2] a\n@sealed\n", "variable array of float16"),
        ("A_f32f", "uint1 pre\nfloat32[2] a\n@sealed\n", "fixed array of float32 unaligned"),
        ("A_f64v", "float64[<=2] a\n@sealed\n", "variable array of float64"),
        ("A_two", "uint8[<=2] a\nint8[<=2] b\n@sealed\n", "two variable arrays (offset depends on first length)"),
        ("A_lt", "uint8[<3] a\n@sealed\n", "exclusive capacity bound"),
        ("A_u24v", "uint24[<=2] a\nuint8 z\n@sealed\n", "variable array of whole-byte but non-standard-width elements (stored in a wider type: no bulk copy)"),
        ("A_i40f", "saturated int40[2] a\n@sealed\n", "fixed array of 40-bit signed elements (whole bytes, stored in 64 bits)"),
    ]


def _composites() -> typing.List[Entry]:
    return [
        ("In1", "saturated int5 a\nsaturated float16 h\n@sealed\n", "leaf sealed struct (nested by others)"),
        ("In2", "uint8[<=2] a\n@sealed\n", "leaf sealed variable-size struct"),
        ("InD", "uint7 a\nuint8[<=2] b\n@extent 6 * 8\n", "leaf delimited struct"),
        ("InE", "@sealed\n", "empty sealed"),
        ("C_nest", "uint3 pre\nIn1.1.0 n\nuint8 z\n@sealed\n", "nested sealed composite after unaligned field (alignment padding)"),
        ("C_nestv", "In2.1.0 n\nuint8 z\n@sealed\n", "nested variable-size sealed composite"),
        ("C_nest2", "uint3 a\nuint16 b\nIn1.1.0 n\nuint8 z\n@sealed\n", "composite after a whole-byte-long field that starts mid-byte (padding needed although the previous field is a byte multiple)"),
        ("C_arrc2", "uint4 a\nuint8 b\nIn1.1.0[2] arr\n@sealed\n", "array of composites after a whole-byte-long field that starts mid-byte"),
        ("C_delim", "uint8 pre\nInD.1.0 d\nuint8 z\n@sealed\n", "nested delimited composite (delimiter header)"),
        ("C_arrc", "In1.1.0[2] a\n@sealed\n", "fixed array of composites"),
        ("C_arrcv", "In2.1.0[<=2] a\n@sealed\n", "variable array of variable composites"),
        ("C_arrd", "InD.1.0[<=2] a\n@sealed\n", "variable array of delimited composites (thorough tier: ~1600 paths at L=20)"),
        ("C_arrd1", "uint8 pre\nInD.1.0[<=1] a\n@sealed\n", "variable array (capacity 1) of delimited composites"),
        ("C_empty", "InE.1.0 e\nuint8 z\n@sealed\n", "nested empty type"),
        ("C_ext", "uint8 a\nuint16 b\n@extent 12 * 8\n", "top-level delimited with explicit extent"),
        ("C_void", "uint6 a\nvoid4\nuint6 b\n@sealed\n", "void crossing a byte boundary"),
        ("C_void2", "void8\nuint8 a\nvoid3\nbool b\nvoid12\n@sealed\n", "leading, middle and trailing voids"),
        ("C_const", "uint8 a\nuint8 K = 7\nfloat32 F = 1.5\n@sealed\n", "constants present"),
    ]


def _unions() -> typing.List[Entry]:
    return [
        ("U_prim", "@union\nuint8 a\nsaturated int12 b\nfloat16 c\n@sealed\n", "union of primitives"),
        ("U_arr", "@union\nuint8[<=2] a\nuint16[2] b\n@sealed\n", "union with array options"),
        ("U_comp", "@union\nIn1.1.0 a\nInD.1.0 b\nInE.1.0 c\n@sealed\n", "union of composites incl. delimited and empty"),
        ("U_in", "uint4 pre\nU_prim.1.0 u\nuint8 z\n@sealed\n", "union nested in a struct after unaligned field"),
        ("U_arrof", "U_prim.1.0[<=2] us\n@sealed\n", "variable array of unions"),
        ("U_delim", "@union\nuint8 a\nuint16 b\n@extent 8 * 8\n", "delimited union at top level"),
        ("U_pv", "@union\nuint8 p\nuint8[<=2] v\nIn2.1.0 c\n@sealed\n", "union with a primitive option declared BEFORE a variable-array and a composite option"),
    ]


def _tails() -> typing.List[Entry]:
    """byte-aligned fields of non-standard width (stored in a wider C type) as the LAST field: a copy sized by the storage type
    instead of the serialized width overruns an exactly-sized buffer"""
    return [
        ("T_u24", "uint8 a\nuint24 b\n@sealed\n", "aligned uint24 as the final field"),
        ("T_i20", "uint16 a\nsaturated int20 b\n@sealed\n", "aligned int20 as the final field"),
        ("T_u40", "truncated uint40 v\n@sealed\n", "aligned uint40 as the only field"),
        ("T_u56a", "uint8[<=2] a\nuint56 b\n@sealed\n", "aligned uint56 after a variable array, final field"),
        ("InDs", "uint8 x\n@extent 2 * 8\n", "small fixed-size delimited leaf"),
        ("T_dtail", "uint8 a\nInDs.1.0 d\n@sealed\n", "fixed-size delimited nested type (extent < 8 bytes) at the tail"),
        ("T_f16tail", "uint8 a\nfloat16 h\n@sealed\n", "aligned float16 as the final field"),
        # added after seeded changes that the quick corpus missed (DESIGN.md 10.9): each is a *layout feature*, not a fix for one mutant
        ("T_u12n", "uint12 a\nuint4 b\nuint20 c\nuint4 d\n@sealed\n",
         "byte-aligned unsigned fields whose width is not a byte multiple, each followed by a sub-byte field (a whole-byte copy picks up the neighbour)"),
        ("T_i12n", "saturated int12 a\nuint4 b\nsaturated int33 c\nuint7 d\n@sealed\n",
         "byte-aligned signed fields whose width is not a byte multiple, each followed by a sub-byte field"),
        ("V_nib", "uint4[<=2] a\nIn1.1.0 b\nuint8 tail\n@sealed\n",
         "variable array of sub-byte elements followed by a composite: the offset set {8,12,16} has aligned extremes but is not aligned (padding needed for odd counts)"),
        ("V_nibu", "uint4[<=2] a\nU_prim.1.0 u\n@sealed\n", "same, followed by a union"),
        ("C_agg", "In1.1.0 a\nIn2.1.0 b\n@sealed\n", "pure aggregate: a struct made only of composite fields (no primitive of its own)"),
        ("C_aggd", "InDs.1.0 a\nIn1.1.0 b\n@extent 16 * 8\n", "delimited pure aggregate with a delimited member"),
    ]


def _ser_only() -> typing.List[Entry]:
    """capacity equal to the largest value the implicit length prefix can hold (2^8-1): 'the prefix cannot exceed the capacity' holds on the
    wire but not for an in-memory count.  Names start with S_: exercised by the SERIALIZATION queries only (C, Python); deserializing a
    255-element array with a symbolic count is outside the budget (stated in the evidence)."""
    return [
        ("S_cap255", "uint8[<=255] a\n@sealed\n", "variable byte array whose capacity is the maximum of its uint8 length prefix"),
        ("S_bcap255", "bool[<=255] a\n@sealed\n", "variable bit array whose capacity is the maximum of its uint8 length prefix"),
    ]


def _services() -> typing.List[Entry]:
    return [
        ("Svc", "uint8 a\nuint8[<=2] b\n@sealed\n---\nsaturated int9 r\nIn1.1.0 n\n@extent 10 * 8\n", "service request/response"),
    ]


def _metadata() -> typing.List[Entry]:
    """fixed port-IDs at their boundaries (needs --allow-unregulated-fixed-port-id), constants of every kind and extreme magnitude"""
    return [
        ("0.PortZero", "uint8 a\n@sealed\n", "message with fixed port-ID 0 (lowest)"),
        ("8191.PortMax", "uint8 a\n@extent 4 * 8\n", "message with fixed port-ID 8191 (highest)"),
        ("4321.PortMid", "uint8[<=2] a\n@sealed\n", "message with fixed port-ID 4321"),
        ("0.SvcZero", "uint8 a\n@sealed\n---\nuint8 r\n@sealed\n", "service with fixed port-ID 0"),
        ("511.SvcMax", "uint8 a\n@sealed\n---\nuint8 r\n@extent 2 * 8\n", "service with fixed port-ID 511"),
        ("K_int", "uint8 a\nuint64 U64MAX = 18446744073709551615\nint64 I64MIN = -9223372036854775808\nint64 I64MAX = 9223372036854775807\n"
                  "uint8 U8 = 255\nint8 I8 = -128\nuint3 U3 = 7\nint2 I2 = -2\nbool BT = true\nbool BF = false\nuint8 CH = 'Z'\n@sealed\n",
         "integer/bool constants at the extremes of their types"),
        ("K_flt", "uint8 a\nfloat32 F32PI = 3.141592653589793238462643383279502884197169399375105820974944592307816406286\n"
                  "float64 F64PI = 3.141592653589793238462643383279502884197169399375105820974944592307816406286\n"
                  "float16 F16 = 65504.0\nfloat32 F32MAX = 340282346638528859811704183484516925440.0\nfloat32 F32TINY = 1.0e-45\n"
                  "float64 F64MAX = 1.7976931348623157e308\nfloat64 F64TINY = 4.9e-324\nfloat32 THIRD = 1.0 / 3.0\nfloat64 NEG = -2.5e-3\n"
                  "float16 F16S = 0.1\n@sealed\n",
         "floating-point constants: irrational digits, extreme magnitudes, subnormals, rationals"),
    ]


def quick_names() -> typing.List[str]:
    """about 40 types for the quick tier (every feature family, fewer offsets/widths)"""
    sel = [n for n, _, _ in _arrays() + _composites() + _unions() + _services() + _tails() + _ser_only() if n != "C_arrd"]
    pr = [n for n, _, _ in _prims()]
    sel += pr[::3]
    sel += ["W_u1", "W_u63", "W_i2", "W_i33"]
    return sel


def all_entries(seed: int = 0, n_random: int = 0, metadata: bool = False) -> typing.List[Entry]:
    out = _prims() + _wide_widths() + _arrays() + _composites() + _unions() + _services() + _tails() + _ser_only()
    if metadata:
        out += _metadata()
    rng = random.Random(seed)
    for i in range(n_random):
        out.append(_random_type(rng, i))
    return out


def _random_type(rng: random.Random, i: int) -> Entry:
    """random type from the same grammar: <= 4 fields, depth <= 2, extent <= 24 bytes"""
    prims = ["uint%d" % rng.choice([1, 2, 5, 8, 11, 16, 24, 32]), "int%d" % rng.choice([2, 4, 8, 13, 16, 32]), "bool", "float16", "float32"]
    fields = []
    bits = 0
    for j in range(rng.randint(1, 4)):
        r = rng.random()
        cm = rng.choice(["saturated ", "truncated "])
        t = rng.choice(prims)
        if t == "bool":
            cm = ""
        if t.startswith("int"):
            cm = "saturated "
        if r < 0.5:
            f = f"{cm}{t} f{j}"
            bits += 32
        elif r < 0.65:
            f = f"{cm}{t}[<={rng.randint(1, 3)}] f{j}"
            bits += 8 + 3 * 32
        elif r < 0.75:
            f = f"{cm}{t}[{rng.randint(1, 3)}] f{j}"
            bits += 3 * 32
        elif r < 0.85:
            f = f"void{rng.randint(1, 9)}"
            bits += 9
        elif r < 0.93:
            f = f"In1.1.0 f{j}"
            bits += 32
        else:
            f = f"InD.1.0 f{j}"
            bits += 12 * 8
        if bits > 24 * 8:
            break
        fields.append(f)
    union = rng.random() < 0.2 and len([f for f in fields if not f.startswith("void")]) >= 2
    if union:
        fields = ["@union"] + [f for f in fields if not f.startswith("void")]
    return (f"R{i}", "\n".join(fields) + "\n@sealed\n", "random type: " + "; ".join(fields))


def write(root: pathlib.Path, entries: typing.List[Entry]) -> pathlib.Path:
    """writes <root>/vt/<Name>.1.0.dsdl; returns the namespace directory"""
    ns = root / "vt"
    ns.mkdir(parents=True, exist_ok=True)
    for name, text, _ in entries:
        (ns / f"{name}.1.0.dsdl").write_text(text)       # a leading "<port-id>." in the name is the fixed port-ID
    return ns
