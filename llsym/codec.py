"""Symbolic execution of generated C (de)serializers of one DSDL type, compared with the reference model (dsdlspec).

One `TypeUnit` = one generated header compiled to IR.  `ser_queries` / `des_queries` explore all paths with every object
byte / buffer byte symbolic and discharge, per path and per shape compatible with the path, one z3 query
    path condition /\\ shape condition /\\ NOT(outputs match the specification)        (must be unsat)
Counterexamples are replayed natively (gcc and clang -fsanitize=address,undefined) before they are believed.
"""
from __future__ import annotations

import os
import pathlib
import subprocess
import time
import typing

import pydsdl
import z3

from . import build, core, dsdlspec as D
from .core import bv

QUERY_TIMEOUT_MS = 60000
ERR_INVALID_ARG = 2
ERR_TOO_SMALL = 3


def cname(t: pydsdl.CompositeType) -> str:
    """C type name as generated: namespace components + short name + version (corpus names need no stropping)"""
    full = t.full_name.replace(".", "_")
    return f"{full}_{t.version.major}_{t.version.minor}"


def header_of(t: pydsdl.CompositeType) -> str:
    comps = t.full_name.split(".")
    if comps[-1] in ("Request", "Response") and getattr(t, "has_parent_service", False):
        comps = comps[:-1]
    return "/".join(comps[:-1] + [f"{comps[-1]}_{t.version.major}_{t.version.minor}.h"])


def max_bytes(t: pydsdl.CompositeType) -> int:
    return (max(D.inner(t).bit_length_set) + 7) // 8


def extent_bytes(t: pydsdl.CompositeType) -> int:
    return (t.extent + 7) // 8


class TypeUnit:
    def __init__(self, t: pydsdl.CompositeType, gen: pathlib.Path, work: pathlib.Path, variant: str, defines: typing.Sequence[str] = (),
                 incs: typing.Sequence[pathlib.Path] = ()):
        self.t, self.gen, self.work, self.variant, self.defines = t, gen, work, variant, list(defines)
        self.cn = cname(t)
        self.hdr = header_of(t)
        self.incs = [gen] + list(incs)
        work.mkdir(parents=True, exist_ok=True)
        # ---- layout from the compiler
        self.lay = D.Layout()
        D.c_read(t, "", self.lay, [])
        lay_c = work / f"lay_{self.cn}.c"
        lines = [f"#include <{self.hdr}>\n#include <stdio.h>\n#include <stddef.h>\nint main(void){{\n"]
        for i, p in enumerate(self.lay.paths):
            lines.append(f'  printf("%zu\\n", offsetof({self.cn}, {p}));\n')
        lines.append(f'  printf("%zu\\n", sizeof({self.cn}));\n  return 0; }}\n')
        lay_c.write_text("".join(lines))
        exe = work / f"lay_{self.cn}"
        build.run([build.CLANG, "-std=c11", "-Wno-everything", "-o", str(exe), str(lay_c)] + [x for i in self.incs for x in ("-I", str(i))] +
                  ["-D" + d for d in self.defines])
        vals = [int(x) for x in subprocess.run([str(exe)], stdout=subprocess.PIPE, text=True, check=True).stdout.split()]
        self.lay.offsets = dict(zip(self.lay.paths, vals[:-1]))
        self.size = vals[-1]
        # ---- IR
        self.tu = work / f"h_{self.cn}{self.SUFFIX}"
        self.tu.write_text(self.harness_text())
        self.module = core.parse_module(self._compile_ir())

    SUFFIX = ".c"
    CXX = False
    std: typing.Optional[str] = None

    def _compile_ir(self) -> str:
        return build.c_to_ir(self.tu, self.incs, self.variant, self.defines)

    def harness_text(self) -> str:
        return (f"#include <{self.hdr}>\n"
                f"int8_t h_ser(const {self.cn}* o, uint8_t* b, size_t* s){{ return {self.cn}_serialize_(o, b, s); }}\n"
                f"int8_t h_des({self.cn}* o, const uint8_t* b, size_t* s){{ return {self.cn}_deserialize_(o, b, s); }}\n"
                f"int8_t h_des_prior({self.cn}* o, const uint8_t* b, size_t* s){{ return {self.cn}_deserialize_(o, b, s); }}\n"
                f"void h_init({self.cn}* o){{ {self.cn}_initialize_(o); }}\n")

    budget_s = 300.0

    def engine(self, check_ub: bool) -> core.Engine:
        return core.Engine(self.module, check_ub=check_ub, budget_s=self.budget_s)


def _le(n: int, width: int = 8) -> typing.List[int]:
    return [(n >> (8 * k)) & 0xFF for k in range(width)]


def _pc(st: core.State) -> typing.List[typing.Any]:
    return [c for c in st.pc if not isinstance(c, bool)]


def _rc8(r: typing.Any) -> typing.Any:
    return bv(r, 8)


def _leaks(s2: core.State) -> typing.List[str]:
    return [o.name for o in s2.objs.values() if o.name.startswith("heap") and not o.freed]


class QueryLog:
    def __init__(self) -> None:
        self.unsat = 0
        self.paths = 0
        self.cex: typing.List[dict] = []
        self.unknown: typing.List[str] = []
        self.notes: typing.List[str] = []
        self.solver_s = 0.0


def _check(solver: z3.Solver, pcs: typing.Sequence[typing.Any], goal: typing.Any, log: QueryLog) -> typing.Optional[z3.ModelRef]:
    """prove pcs => goal; returns a model of the negation if sat, None if unsat; 'unknown' recorded"""
    t = time.time()
    solver.push()
    solver.add(*pcs)
    solver.add(z3.Not(goal))
    r = solver.check()
    m = solver.model() if r == z3.sat else None
    solver.pop()
    log.solver_s += time.time() - t
    if r == z3.unsat:
        log.unsat += 1
        return None
    if r == z3.sat:
        return m
    log.unknown.append("solver unknown")
    return None


def _shapes_under(solver: z3.Solver, pcs: typing.Sequence[typing.Any], log: QueryLog, limit: int = 400):
    """yield models of the path, each excluding the shape conditions already covered (caller sends back the covered condition)"""
    covered: typing.List[typing.Any] = []
    n = 0
    while True:
        t = time.time()
        solver.push()
        solver.add(*pcs)
        for c in covered:
            solver.add(z3.Not(c))
        r = solver.check()
        m = solver.model() if r == z3.sat else None
        solver.pop()
        log.solver_s += time.time() - t
        if r == z3.unsat:
            return
        if r != z3.sat:
            log.unknown.append("shape enumeration: solver unknown")
            return
        n += 1
        if n > limit:
            log.unknown.append("shape enumeration exceeded its limit")
            return
        cond = yield m
        covered.append(cond)
        yield None


# ---------------------------------------------------------------------------------------------- serialization
def ser_setup(tu: TypeUnit, bufsize: int, eng: core.Engine):
    st = core.State()
    obj0 = core.sym_bytes("o", tu.size)
    pobj = st.new_obj(tu.size, "obj", list(obj0), writable=False)
    buf0 = core.sym_bytes("b", bufsize)
    pbuf = st.new_obj(bufsize, "buf", list(buf0))
    psz = st.new_obj(8, "size", _le(bufsize))
    val = D.c_read(tu.t, "", tu.lay, obj0)
    st.pc += D.bool_preconditions(val)
    if getattr(tu, "VALID_OBJECTS_ONLY", False):
        st.pc += D.validity_preconditions(val)       # mirror harnesses (C++): the target object cannot hold invalid counts/tags
    return st, obj0, buf0, pobj, pbuf, psz, val


def ser_goal(tu: TypeUnit, val: typing.Any, model: z3.ModelRef, rc: typing.Any, size_out: typing.Any, buf: typing.Sequence[typing.Any],
             bufsize: int) -> typing.Tuple[typing.Any, typing.Any, str]:
    """(shape condition, goal, description) for the shape the model selects"""
    ch = D.Chooser(model)
    mx = max_bytes(tu.t)
    try:
        s = D.ser_top(tu.t, val, ch)
    except D.Invalid:
        # no representation: rejected with an error instead of producing bytes (the up-front buffer check may fire first)
        goal = z3.Or(_rc8(rc) == (-D.ERR_ARRAY) & 0xFF, _rc8(rc) == (-D.ERR_TAG) & 0xFF) if bufsize >= mx else \
            z3.Or(_rc8(rc) == (-D.ERR_ARRAY) & 0xFF, _rc8(rc) == (-D.ERR_TAG) & 0xFF, _rc8(rc) == (-ERR_TOO_SMALL) & 0xFF)
        return ch.cond(), goal, "invalid value"
    nbytes = (s.pos + 7) // 8
    if bufsize < mx:
        goal = _rc8(rc) == (-ERR_TOO_SMALL) & 0xFF
        return ch.cond(), goal, f"buffer {bufsize} < max {mx}"
    goal = z3.And(_rc8(rc) == 0, bv(size_out, 64) == nbytes, D.stream_matches(s, buf))
    return ch.cond(), goal, f"valid value, {nbytes} bytes"


def ser_queries(tu: TypeUnit, bufsize: int, check_ub: bool, functional: bool = True) -> QueryLog:
    log = QueryLog()
    eng = tu.engine(check_ub)
    st, obj0, buf0, pobj, pbuf, psz, val = ser_setup(tu, bufsize, eng)
    try:
        res = eng.run("h_ser", [pobj, pbuf, psz], st)
    except core.Unsupported as e:
        log.unknown.append(f"unsupported: {e}")
        return log
    solver = z3.Solver()
    solver.set("timeout", QUERY_TIMEOUT_MS)
    for kind, s2, r in res:
        log.paths += 1
        if kind == "violation":
            m = _model(_pc(s2) if not r.pc else [c for c in r.pc if not isinstance(c, bool)])
            log.cex.append(dict(fn="ser", kind=r.kind, what=str(r), bufsize=bufsize, inputs=_inputs(m, obj0, buf0)))
            continue
        for n in s2.notes:
            if str(n) not in log.notes:
                log.notes.append(str(n))
        if _leaks(s2):
            log.cex.append(dict(fn="ser", kind="leak", what=f"heap blocks not freed at exit: {_leaks(s2)[:3]}", bufsize=bufsize, inputs=_inputs(_model(_pc(s2)), obj0, buf0)))
        if not functional:
            # C04/C05 obligations only: documented return codes, size never exceeds the supplied/advertised size
            size_out = eng.load(s2, core.IntT(64), psz)
            goal = z3.And(z3.Or(*[_rc8(r) == (-c) & 0xFF for c in (0, ERR_TOO_SMALL, D.ERR_ARRAY, D.ERR_TAG)]),
                          z3.Implies(_rc8(r) == 0, z3.ULE(bv(size_out, 64), min(bufsize, max_bytes(tu.t)))))
            m = _check(solver, _pc(s2), goal, log)
            if m is not None:
                log.cex.append(dict(fn="ser", kind="bad-return", what="undocumented return code or reported size beyond the buffer / advertised maximum",
                                    bufsize=bufsize, inputs=_inputs(m, obj0, buf0)))
            continue
        size_out = eng.load(s2, core.IntT(64), psz)
        fin = s2.objs[pbuf.obj].data
        gen = _shapes_under(solver, _pc(s2), log)
        for m in gen:
            cond, goal, desc = ser_goal(tu, val, m, r, size_out, fin, bufsize)
            bad = _check(solver, _pc(s2) + [cond], goal, log)
            if bad is not None:
                log.cex.append(dict(fn="ser", kind="spec-mismatch", what=f"serializer output differs from the specification ({desc})",
                                    bufsize=bufsize, inputs=_inputs(bad, obj0, buf0)))
            gen.send(cond)
    log.solver_s += eng.stats["solver_time"]
    return log


# ---------------------------------------------------------------------------------------------- deserialization
def des_setup(tu: TypeUnit, L: int, uninit_dst: bool):
    st = core.State()
    buf0 = core.sym_bytes("b", L)
    pbuf = st.new_obj(L, "buf", list(buf0), writable=False)
    # prior-state runs: the destination holds an arbitrary prior state whose bytes are named prior<i>; the results must not depend on them
    dst0 = core.sym_bytes("prior", tu.size) if uninit_dst else core.sym_bytes("p", tu.size)
    pdst = st.new_obj(tu.size, "dst", list(dst0))
    psz = st.new_obj(8, "size", _le(L))
    return st, buf0, dst0, pbuf, pdst, psz


def des_goal(tu: TypeUnit, model: z3.ModelRef, buf0: typing.Sequence[typing.Any], L: int, rc: typing.Any, consumed: typing.Any,
             dst_final: typing.Sequence[typing.Any]) -> typing.Tuple[typing.Any, typing.Any, str]:
    ch = D.Chooser(model)
    try:
        exp, endbit = D.des_top(tu.t, buf0, ch)
    except D.Invalid as inv:
        return ch.cond(), _rc8(rc) == (-inv.code) & 0xFF, f"invalid representation (error {inv.code})"
    act = D.c_read(tu.t, "", tu.lay, [z3.BitVec(f"uninit_{i}", 8) if b is None else b for i, b in enumerate(dst_final)])
    want = min((endbit + 7) // 8, L)
    goal = z3.And(_rc8(rc) == 0, bv(consumed, 64) == want, D.match_decoded(exp, act))
    return ch.cond(), goal, f"valid representation, consumes {want} of {L}"


def des_queries(tu: TypeUnit, L: int, check_ub: bool, functional: bool = True, uninit_dst: bool = False, entry: str = "h_des") -> QueryLog:
    log = QueryLog()
    eng = tu.engine(check_ub)
    st, buf0, dst0, pbuf, pdst, psz = des_setup(tu, L, uninit_dst)
    if entry == "h_des_prior":
        # mirror harness: the destination struct is converted into the target object first, so it must be a valid object
        core.State._prior_pre = D.validity_preconditions(D.c_read(tu.t, "", tu.lay, dst0)) + D.bool_preconditions(D.c_read(tu.t, "", tu.lay, dst0))
        st.pc += core.State._prior_pre
    else:
        core.State._prior_pre = []
    try:
        res = eng.run(entry, [pdst, pbuf, psz], st)
    except core.Unsupported as e:
        log.unknown.append(f"unsupported: {e}")
        return log
    solver = z3.Solver()
    solver.set("timeout", QUERY_TIMEOUT_MS)
    summaries: list = []
    for kind, s2, r in res:
        log.paths += 1
        if kind == "violation":
            m = _model([c for c in r.pc if not isinstance(c, bool)])
            log.cex.append(dict(fn="des", kind=r.kind, what=str(r), L=L, inputs=_inputs(m, [], buf0, dst0)))
            continue
        for n in s2.notes:
            if str(n) not in log.notes:
                log.notes.append(str(n))
        consumed = eng.load(s2, core.IntT(64), psz)
        fin = s2.objs[pdst.obj].data
        if _leaks(s2):
            log.cex.append(dict(fn="des", kind="leak", what=f"heap blocks not freed at exit: {_leaks(s2)[:3]}", L=L, inputs=_inputs(_model(_pc(s2)), [], buf0, dst0)))
        if not functional:
            goal = z3.And(z3.Or(*[_rc8(r) == (-c) & 0xFF for c in (0, D.ERR_ARRAY, D.ERR_TAG, D.ERR_DELIM)]), z3.ULE(bv(consumed, 64), L))
            m = _check(solver, _pc(s2), goal, log)
            if m is not None:
                log.cex.append(dict(fn="des", kind="bad-return", what="undocumented return code or consumed size beyond the supplied size", L=L,
                                    inputs=_inputs(m, [], buf0, dst0)))
            if uninit_dst:
                n_before = len(log.cex)
                _prior_independence(tu, solver, s2, r, consumed, fin, buf0, dst0, L, log, collect=(summaries if entry == "h_des_prior" else None))
                for c in log.cex[n_before:]:
                    c["entry"] = entry
            continue
        gen = _shapes_under(solver, _pc(s2), log)
        for m in gen:
            cond, goal, desc = des_goal(tu, m, buf0, L, r, consumed, fin)
            bad = _check(solver, _pc(s2) + [cond], goal, log)
            if bad is not None:
                log.cex.append(dict(fn="des", kind="spec-mismatch", what=f"deserializer result differs from the specification ({desc})", L=L,
                                    inputs=_inputs(bad, [], buf0, dst0)))
            gen.send(cond)
    if summaries:
        _prior_pairs(solver, summaries, dst0, buf0, L, log, entry)
    log.solver_s += eng.stats["solver_time"]
    return log


def _prior_independence(tu: TypeUnit, solver: z3.Solver, s2: core.State, rc: typing.Any, consumed: typing.Any, fin: typing.Sequence[typing.Any],
                        buf0: typing.Sequence[typing.Any], dst0: typing.Sequence[typing.Any], L: int, log: QueryLog,
                        collect: typing.Optional[list] = None) -> None:
    """The outcome of a deserialization (error code, consumed size, every meaningful decoded field) and the path taken depend only on
    the input bytes, never on what the destination held before.  Reads of the prior state are allowed (read-modify-write of partial
    bytes) as long as they cannot influence any of those.  Syntactic independence first; otherwise a two-copy solver query."""
    from z3.z3util import get_vars
    pcs = _pc(s2)
    prior = {str(v): v for v in dst0}
    act = D.c_read(tu.t, "", tu.lay, fin)
    gen = _shapes_under(solver, pcs, log)
    for m in gen:
        ch = D.Chooser(m)
        try:
            exp, _ = D.des_top(tu.t, buf0, ch)
            outs = [bv(rc, 8), bv(consumed, 64)] + D.meaningful_leaves(exp, act)
        except D.Invalid:
            outs = [bv(rc, 8), bv(consumed, 64)]
        cond = ch.cond()
        if collect is not None:
            # mirror harness: the PATH legitimately depends on the prior object (it is converted first); only the outputs are compared,
            # across all pairs of paths, after the exploration (see _prior_pairs)
            collect.append((pcs, cond, [z3.simplify(o) if not isinstance(o, int) else z3.BitVecVal(o, 8) for o in outs]))
            gen.send(cond)
            continue
        terms = pcs + [z3.simplify(o) if not isinstance(o, int) else z3.BitVecVal(o, 8) for o in outs]
        used = {str(v) for t in terms for v in get_vars(t)} & set(prior)
        if not used:
            log.unsat += 1
        else:
            sub = [(prior[n], z3.BitVec(n + "_b", 8)) for n in prior]
            pc2 = [z3.substitute(c, *sub) for c in pcs]
            outs2 = [z3.substitute(o, *sub) for o in terms[len(pcs):]]
            same = z3.And(*(pc2 + [a == b for a, b in zip(terms[len(pcs):], outs2)]))
            # the second prior state satisfies the same preconditions as the first (valid object for mirror harnesses)
            pre_b = [z3.substitute(c, *sub) for c in getattr(s2, "_prior_pre", [])]
            bad = _check(solver, pcs + [cond] + pre_b, same, log)
            if bad is not None:
                inp = _inputs(bad, [], buf0, dst0)
                inp["dst_b"] = bytes(bad.eval(z3.BitVec(str(v) + "_b", 8), model_completion=True).as_long() for v in dst0).hex()
                log.cex.append(dict(fn="des", kind="prior-state-influence", what=f"result depends on the destination's prior contents (bytes {sorted(used)[:6]})",
                                    L=L, inputs=inp))
        gen.send(cond)


def _prior_pairs(solver: z3.Solver, summaries: list, dst0: typing.Sequence[typing.Any], buf0: typing.Sequence[typing.Any], L: int, log: QueryLog, entry: str) -> None:
    """for every pair of (path, wire shape) summaries with the same wire shape: no buffer and two valid prior objects exist for which the
    first takes path p, the second path q, and the outputs differ"""
    sub = [(v, z3.BitVec(str(v) + "_b", 8)) for v in dst0]
    for i, (pcs_p, cond_p, outs_p) in enumerate(summaries):
        for pcs_q, cond_q, outs_q in summaries[i:]:
            if not z3.eq(cond_p, cond_q) or len(outs_p) != len(outs_q):
                continue
            pc_q = [z3.substitute(c, *sub) for c in pcs_q]
            outs_qb = [z3.substitute(o, *sub) for o in outs_q]
            same = z3.And(*[a == b for a, b in zip(outs_p, outs_qb)]) if outs_p else z3.BoolVal(True)
            bad = _check(solver, pcs_p + [cond_p] + pc_q, same, log)
            if bad is not None:
                inp = _inputs(bad, [], buf0, dst0)
                inp["dst_b"] = bytes(bad.eval(z3.BitVec(str(v) + "_b", 8), model_completion=True).as_long() for v in dst0).hex()
                log.cex.append(dict(fn="des", kind="prior-state-influence", what="result depends on the value the destination object held before", L=L,
                                    inputs=inp, entry=entry))


def _unwritten_meaningful(tu: TypeUnit, exp: typing.Any, fin: typing.Sequence[typing.Any]) -> typing.List[int]:
    """byte offsets of meaningful fields (per the expected decode) that are still uninitialised in the final object"""
    marks = [z3.BitVec(f"@{i}", 8) for i in range(len(fin))]
    act = D.c_read(tu.t, "", tu.lay, marks)
    from z3.z3util import get_vars
    used = {str(v) for v in get_vars(D.match_decoded(exp, act))}
    return [i for i in range(len(fin)) if f"@{i}" in used and fin[i] is None]


# ---------------------------------------------------------------------------------------------- helpers
def _model(pcs: typing.Sequence[typing.Any]) -> typing.Optional[z3.ModelRef]:
    s = z3.Solver()
    s.add(*pcs)
    return s.model() if s.check() == z3.sat else None


def _inputs(m: typing.Optional[z3.ModelRef], obj0: typing.Sequence[typing.Any], buf0: typing.Sequence[typing.Any],
            dst0: typing.Sequence[typing.Any] = ()) -> typing.Optional[dict]:
    if m is None:
        return None

    def ev(bs, fill=0):
        return bytes((m.eval(b, model_completion=True).as_long() if b is not None and not isinstance(b, int) else (b if isinstance(b, int) else fill)) for b in bs).hex()
    return dict(obj=ev(obj0), buf=ev(buf0), dst=ev(dst0, 0xA5))


# ---------------------------------------------------------------------------------------------- native replay
REPLAY_MAIN = r"""
#include <stdio.h>
#include <stdlib.h>
#include <string.h>
static size_t hex(const char* s, uint8_t* out){ size_t n = (s[0]=='-') ? 0 : strlen(s)/2; for(size_t i=0;i<n;i++){ unsigned v; sscanf(s+2*i,"%2x",&v); out[i]=(uint8_t)v; } return n; }
static void ph(const char* k, const uint8_t* b, size_t n){ printf(" %s=", k); if(!n) printf("-"); for(size_t i=0;i<n;i++) printf("%02x", b[i]); }
int main(int argc, char** argv){
  if(argc < 5) return 2;
  size_t n = strtoull(argv[2], NULL, 0);
  @T@* o = (@T@*) malloc(sizeof(@T@));
  uint8_t* b = (uint8_t*) malloc(n ? n : 1); if(!n){ free(b); b = (uint8_t*) malloc(0); }
  hex(argv[3], (uint8_t*) o); hex(argv[4], b);
  size_t s = n; int rc;
  if(!strcmp(argv[1], "ser")) rc = h_ser(o, b, &s); else if(!strcmp(argv[1], "desp")) rc = h_des_prior(o, b, &s); else rc = h_des(o, b, &s);
  printf("rc=%d size=%zu", rc, s); ph("obj", (const uint8_t*) o, sizeof(@T@)); ph("buf", b, n); printf("\n");
  free(o); free(b); return 0; }
"""


def native_run(tu: TypeUnit, fn: str, n: int, obj_hex: str, buf_hex: str, sanitize: bool = False) -> typing.Tuple[int, dict, str]:
    src = tu.work / f"rp_{tu.cn}{tu.SUFFIX}"
    src.write_text(tu.harness_text() + REPLAY_MAIN.replace("@T@", tu.cn))
    exe = tu.work / (f"rp_{tu.cn}" + ("_san" if sanitize else ""))
    if not exe.exists():
        build.native(src, exe, tu.incs, tu.defines, cxx=tu.CXX, sanitize=sanitize, std=tu.std)
    p = subprocess.run([str(exe), fn, str(n), obj_hex or "-", buf_hex or "-"], stdout=subprocess.PIPE, stderr=subprocess.PIPE, text=True, timeout=60)
    out: dict = {}
    if p.returncode == 0:
        for tok in p.stdout.split():
            k, _, v = tok.partition("=")
            out[k] = int(v) if k in ("rc", "size") else (b"" if v == "-" else bytes.fromhex(v))
    return p.returncode, out, (p.stdout + p.stderr)[-1200:]


def replay(tu: TypeUnit, cex: dict) -> typing.Tuple[bool, str]:
    """re-run natively; reproduced iff the native result violates the specification (or a sanitizer/crash confirms the obligation)"""
    inp = cex.get("inputs")
    if not inp:
        return False, "no model"
    fn = cex["fn"]
    n = cex["bufsize"] if fn == "ser" else cex["L"]
    obj_hex = inp["obj"] if fn == "ser" else inp["dst"]
    if cex["kind"] == "prior-state-influence":
        fn = "desp" if cex.get("entry") == "h_des_prior" else fn
        rc1, out1, _ = native_run(tu, fn, n, inp["dst"], inp["buf"])
        rc2, out2, _ = native_run(tu, fn, n, inp["dst_b"], inp["buf"])
        if rc1 != 0 or rc2 != 0:
            return True, "native run crashed"
        buf = [z3.BitVecVal(x, 8) for x in bytes.fromhex(inp["buf"])]
        differs = out1["rc"] != out2["rc"] or out1["size"] != out2["size"] or (out1["rc"] == 0 and _meaningful_differs2(tu, buf, out1, out2))
        return differs, f"two prior states: rc={out1['rc']}/{out2['rc']} size={out1['size']}/{out2['size']} obj={out1['obj'].hex()[:48]} / {out2['obj'].hex()[:48]}"
    if cex["kind"] not in ("spec-mismatch", "bad-return", "field-not-written"):
        rc, out, raw = native_run(tu, fn, n, obj_hex, inp["buf"], sanitize=True)
        return rc != 0, f"sanitizer run rc={rc}: {raw[-400:]}"
    rc, out, raw = native_run(tu, fn, n, obj_hex, inp["buf"])
    if rc != 0:
        return True, f"native run crashed rc={rc}: {raw[-300:]}"
    # evaluate the specification on the concrete inputs / native outputs
    s = z3.Solver()
    m = _model([])
    if fn == "ser":
        obj = list(bytes.fromhex(inp["obj"]))
        val = D.c_read(tu.t, "", tu.lay, [z3.BitVecVal(x, 8) for x in obj])
        if cex["kind"] == "bad-return":
            ok = out["rc"] in (0, -ERR_TOO_SMALL, -D.ERR_ARRAY, -D.ERR_TAG) and (out["rc"] != 0 or out["size"] <= min(n, max_bytes(tu.t)))
            return (not ok), f"native: rc={out['rc']} size={out['size']}"
        cond, goal, desc = ser_goal(tu, val, m, out["rc"] & 0xFF, out["size"], list(out["buf"]), n)
    else:
        buf = [z3.BitVecVal(x, 8) for x in bytes.fromhex(inp["buf"])]
        if cex["kind"] == "bad-return":
            ok = out["rc"] in (0, -D.ERR_ARRAY, -D.ERR_TAG, -D.ERR_DELIM) and out["size"] <= n
            return (not ok), f"native: rc={out['rc']} size={out['size']}"
        if cex["kind"] == "field-not-written":
            rc2, out2, _ = native_run(tu, fn, n, "5a" * tu.size, inp["buf"])
            return (out["rc"] == 0 and _meaningful_differs(tu, buf, n, out, out2)), f"two prior states give rc={out['rc']}/{out2.get('rc')}"
        cond, goal, desc = des_goal(tu, m, buf, n, out["rc"] & 0xFF, out["size"], list(out["obj"]))
    s.add(z3.Not(goal))
    r = s.check()
    return r == z3.sat, f"native: rc={out['rc']} size={out['size']} buf={out['buf'].hex()[:64]} spec({desc}) violated={r == z3.sat}"


def _meaningful_differs(tu: TypeUnit, buf, n, out1, out2) -> bool:
    m = _model([])
    ch = D.Chooser(m)
    try:
        exp, _ = D.des_top(tu.t, buf, ch)
    except D.Invalid:
        return False
    a1 = D.c_read(tu.t, "", tu.lay, [z3.BitVecVal(x, 8) for x in out1["obj"]])
    a2 = D.c_read(tu.t, "", tu.lay, [z3.BitVecVal(x, 8) for x in out2["obj"]])
    s = z3.Solver()
    s.add(z3.Not(z3.And(D.match_decoded(exp, a1) == D.match_decoded(exp, a2))))
    g1 = z3.simplify(D.match_decoded(exp, a1))
    g2 = z3.simplify(D.match_decoded(exp, a2))
    return not (z3.is_true(g1) and z3.is_true(g2))


def _meaningful_differs2(tu: TypeUnit, buf, out1, out2) -> bool:
    ch = D.Chooser(_model([]))
    try:
        exp, _ = D.des_top(tu.t, buf, ch)
    except D.Invalid:
        return False
    a1 = D.c_read(tu.t, "", tu.lay, [z3.BitVecVal(x, 8) for x in out1["obj"]])
    a2 = D.c_read(tu.t, "", tu.lay, [z3.BitVecVal(x, 8) for x in out2["obj"]])
    l1 = [z3.simplify(x) for x in D.meaningful_leaves(exp, a1)]
    l2 = [z3.simplify(x) for x in D.meaningful_leaves(exp, a2)]
    return any(not z3.eq(x, y) for x, y in zip(l1, l2))
