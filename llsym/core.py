"""Spike: bounded symbolic executor for the LLVM-14 IR subset clang emits for nunavut's generated C.
Values: python int (concrete) or z3 BitVecRef.  Pointers: Ptr(obj, off).  Forking DFS with z3 feasibility checks."""
import re, sys, time, copy
import z3

# ------------------------------------------------------------------ types
class T: pass
class IntT(T):
    def __init__(s, bits): s.bits = bits
    def __repr__(s): return f"i{s.bits}"
class FloatT(T):
    def __init__(s, bits): s.bits = bits
    def __repr__(s): return {16: "half", 32: "float", 64: "double"}[s.bits]
class PtrT(T):
    def __init__(s, to): s.to = to
    def __repr__(s): return f"{s.to}*"
class ArrT(T):
    def __init__(s, n, el): s.n, s.el = n, el
    def __repr__(s): return f"[{s.n} x {s.el}]"
class StructT(T):
    def __init__(s, fields, packed=False, name=None): s.fields, s.packed, s.name = fields, packed, name
    def __repr__(s): return s.name or "{" + ", ".join(map(repr, s.fields)) + "}"
class VoidT(T):
    def __repr__(s): return "void"
class FnT(T):
    def __repr__(s): return "fn"
class Named(T):
    def __init__(s, name): s.name = name
    def __repr__(s): return s.name

class Module:
    def __init__(s): s.structs = {}; s.funcs = {}; s.globals = {}; s.decls = set()

def resolve(m, t):
    while isinstance(t, Named): t = m.structs[t.name]
    return t

def sizeof(m, t):
    t = resolve(m, t)
    if isinstance(t, IntT): return max(1, (t.bits + 7) // 8)
    if isinstance(t, FloatT): return t.bits // 8
    if isinstance(t, PtrT): return 8
    if isinstance(t, ArrT): return t.n * sizeof(m, t.el)
    if isinstance(t, StructT):
        off = 0
        for f in t.fields:
            a = 1 if t.packed else alignof(m, f)
            off = (off + a - 1) // a * a + sizeof(m, f)
        a = 1 if t.packed else alignof(m, t)
        return (off + a - 1) // a * a
    raise NotImplementedError(t)

def alignof(m, t):
    t = resolve(m, t)
    if isinstance(t, (IntT, FloatT)): return min(8, sizeof(m, t)) if sizeof(m, t) in (1, 2, 4, 8) else 8
    if isinstance(t, PtrT): return 8
    if isinstance(t, ArrT): return alignof(m, t.el)
    if isinstance(t, StructT): return 1 if t.packed else max([alignof(m, f) for f in t.fields] or [1])
    raise NotImplementedError(t)

def field_off(m, st, idx):
    st = resolve(m, st); off = 0
    for i, f in enumerate(st.fields):
        a = 1 if st.packed else alignof(m, f)
        off = (off + a - 1) // a * a
        if i == idx: return off
        off += sizeof(m, f)
    raise IndexError

# ------------------------------------------------------------------ type / operand parsing
class P:
    def __init__(s, text): s.t = text; s.i = 0
    def ws(s):
        while s.i < len(s.t) and s.t[s.i] in " \t": s.i += 1
    def peek(s, k=1): s.ws(); return s.t[s.i:s.i + k]
    def eat(s, lit):
        s.ws()
        if s.t.startswith(lit, s.i): s.i += len(lit); return True
        return False
    def expect(s, lit):
        if not s.eat(lit): raise SyntaxError(f"expected {lit!r} at {s.t[s.i:s.i+40]!r} in {s.t!r}")
    def rx(s, pat):
        s.ws(); mm = re.compile(pat).match(s.t, s.i)
        if not mm: return None
        s.i = mm.end(); return mm
    def done(s): s.ws(); return s.i >= len(s.t)

def parse_type(p):
    if p.eat("void"): t = VoidT()
    elif (mm := p.rx(r"i(\d+)")): t = IntT(int(mm.group(1)))
    elif p.eat("float"): t = FloatT(32)
    elif p.eat("double"): t = FloatT(64)
    elif p.eat("half"): t = FloatT(16)
    elif p.eat("opaque"): t = StructT([])
    elif p.eat("<{"):
        fs = []
        if not p.eat("}>"):
            while True:
                fs.append(parse_type(p))
                if p.eat("}>"): break
                p.expect(",")
        t = StructT(fs, packed=True)
    elif p.eat("{"):
        fs = []
        if not p.eat("}"):
            while True:
                fs.append(parse_type(p))
                if p.eat("}"): break
                p.expect(",")
        t = StructT(fs)
    elif p.eat("["):
        n = int(p.rx(r"\d+").group(0)); p.expect("x"); el = parse_type(p); p.expect("]"); t = ArrT(n, el)
    elif (mm := p.rx(r'%("[^"]*"|[\w.$-]+)')): t = Named(mm.group(1))
    else: raise SyntaxError("type? " + p.t[p.i:p.i + 40])
    while True:
        if p.eat("*"): t = PtrT(t)
        elif p.peek() == "(" :  # function type
            depth = 0
            while True:
                c = p.t[p.i]; p.i += 1
                if c == "(": depth += 1
                elif c == ")":
                    depth -= 1
                    if depth == 0: break
            t = FnT()
        else: break
    return t

ATTRS = r"(?:noundef|nonnull|signext|zeroext|nocapture|readonly|writeonly|noalias|immarg|returned|readnone|nofree|inreg|(?:align|dereferenceable|dereferenceable_or_null)\s*\(?\d+\)?|sret\([^)]*\)|byval\([^)]*\))"

def skip_attrs(p):
    while p.rx(ATTRS): pass

class Const:
    def __init__(s, kind, val=None, ty=None): s.kind, s.val, s.ty = kind, val, ty
    def __repr__(s): return f"C({s.kind},{s.val})"

def parse_operand(p, ty):
    """returns ('reg', name) | ('int', v) | ('null',) | ('undef',) | ('global', name) | ('cexpr', ...) | ('float', bits) | ('zero',) | ('agg', [...])"""
    if (mm := p.rx(r'%("[^"]*"|[\w.$-]+)')): return ("reg", mm.group(1))
    if (mm := p.rx(r'@("[^"]*"|[\w.$-]+)')): return ("global", mm.group(1))
    if p.eat("true"): return ("int", 1)
    if p.eat("false"): return ("int", 0)
    if p.eat("null"): return ("null",)
    if p.eat("undef") or p.eat("poison"): return ("undef",)
    if p.eat("zeroinitializer"): return ("zero",)
    if (mm := p.rx(r"0x([0-9A-Fa-f]+)")):
        return ("float", int(mm.group(1), 16))      # double hex form
    if (mm := p.rx(r"-?\d+\.\d*(?:e[+-]?\d+)?")):
        return ("floatdec", float(mm.group(0)))
    if (mm := p.rx(r"-?\d+")): return ("int", int(mm.group(0)))
    if p.eat("getelementptr"):
        p.eat("inbounds"); p.expect("(")
        bt = parse_type(p); p.expect(",")
        pt = parse_type(p); base = parse_operand(p, pt); idx = []
        while p.eat(","):
            it = parse_type(p); idx.append((it, parse_operand(p, it)))
        p.expect(")")
        return ("cgep", bt, base, idx)
    if p.eat("bitcast"):
        p.expect("("); st = parse_type(p); v = parse_operand(p, st); p.expect("to"); parse_type(p); p.expect(")")
        return v
    if p.eat("inttoptr"):
        # constant expression, e.g. the `inttoptr (i64 3 to i8*)` sentinels of libstdc++/nunavut variant code
        p.expect("("); st = parse_type(p); v = parse_operand(p, st); p.expect("to"); parse_type(p); p.expect(")")
        return ("cinttoptr", v)
    if p.eat("ptrtoint"):
        p.expect("("); st = parse_type(p); v = parse_operand(p, st); p.expect("to"); dt = parse_type(p); p.expect(")")
        return ("cptrtoint", v, dt)
    if (mm := p.rx(r'c"((?:[^"\\]|\\[0-9A-Fa-f]{2}|\\\\)*)"')):
        raw = mm.group(1); out = []; i = 0
        while i < len(raw):
            if raw[i] == "\\":
                if raw[i+1] == "\\": out.append(92); i += 2
                else: out.append(int(raw[i+1:i+3], 16)); i += 3
            else: out.append(ord(raw[i])); i += 1
        return ("bytes", out)
    if p.eat("["):
        els = []
        while True:
            et = parse_type(p); els.append((et, parse_operand(p, et)))
            if p.eat("]"): break
            p.expect(",")
        return ("agg", els)
    if p.eat("{"):
        els = []
        while True:
            et = parse_type(p); els.append((et, parse_operand(p, et)))
            if p.eat("}"): break
            p.expect(",")
        return ("agg", els)
    raise SyntaxError("operand? " + p.t[p.i:p.i + 60])

# ------------------------------------------------------------------ module parsing
class Instr:
    __slots__ = ("dst", "op", "a", "text")
    def __init__(s, dst, op, a, text): s.dst, s.op, s.a, s.text = dst, op, a, text

class Func:
    def __init__(s, name, params, ret): s.name, s.params, s.ret = name, params, ret; s.blocks = {}; s.order = []

BINOPS = {"add", "sub", "mul", "udiv", "sdiv", "urem", "srem", "shl", "lshr", "ashr", "and", "or", "xor"}
FBIN = {"fadd", "fsub", "fmul", "fdiv"}
CASTS = {"zext", "sext", "trunc", "bitcast", "ptrtoint", "inttoptr", "fpext", "fptrunc", "sitofp", "uitofp", "fptosi", "fptoui"}

def parse_instr(line):
    p = P(line); dst = None
    mm = p.rx(r'%("[^"]*"|[\w.$-]+)\s*=')
    if mm: dst = mm.group(1)
    p.eat("tail"); p.eat("musttail"); p.eat("notail")
    opm = p.rx(r"[a-z_.]+"); op = opm.group(0)
    if op in BINOPS:
        flags = set()
        while (f := p.rx(r"(nsw|nuw|exact)\b")): flags.add(f.group(1))
        ty = parse_type(p); a = parse_operand(p, ty); p.expect(","); b = parse_operand(p, ty)
        return Instr(dst, op, (ty, a, b, flags), line)
    if op in FBIN or op == "frem":
        while p.rx(r"(fast|nnan|ninf|nsz|arcp|contract|afn|reassoc)\b"): pass
        ty = parse_type(p); a = parse_operand(p, ty); p.expect(","); b = parse_operand(p, ty)
        return Instr(dst, op, (ty, a, b), line)
    if op == "fneg":
        ty = parse_type(p); a = parse_operand(p, ty); return Instr(dst, op, (ty, a), line)
    if op in ("icmp", "fcmp"):
        while p.rx(r"(fast|nnan|ninf|nsz)\b"): pass
        pred = p.rx(r"[a-z]+").group(0); ty = parse_type(p); a = parse_operand(p, ty); p.expect(","); b = parse_operand(p, ty)
        return Instr(dst, op, (pred, ty, a, b), line)
    if op in CASTS:
        st = parse_type(p); v = parse_operand(p, st); p.expect("to"); dt = parse_type(p)
        return Instr(dst, op, (st, v, dt), line)
    if op == "alloca":
        ty = parse_type(p); n = ("int", 1)
        if p.eat(","):
            if not p.rx(r"align\s+\d+"):
                nt = parse_type(p); n = parse_operand(p, nt)
        return Instr(dst, op, (ty, n), line)
    if op == "load":
        p.eat("volatile"); ty = parse_type(p); p.expect(","); pt = parse_type(p); ptr = parse_operand(p, pt)
        return Instr(dst, op, (ty, ptr), line)
    if op == "store":
        p.eat("volatile"); ty = parse_type(p); v = parse_operand(p, ty); p.expect(","); pt = parse_type(p); ptr = parse_operand(p, pt)
        return Instr(dst, op, (ty, v, ptr), line)
    if op == "getelementptr":
        inb = p.eat("inbounds"); bt = parse_type(p); p.expect(","); pt = parse_type(p); base = parse_operand(p, pt); idx = []
        while p.eat(","):
            it = parse_type(p); idx.append((it, parse_operand(p, it)))
        return Instr(dst, op, (bt, base, idx, inb), line)
    if op == "br":
        if p.eat("label"):
            return Instr(None, "br", (p.rx(r'%("[^"]*"|[\w.$-]+)').group(1),), line)
        ty = parse_type(p); c = parse_operand(p, ty); p.expect(","); p.expect("label"); t1 = p.rx(r'%("[^"]*"|[\w.$-]+)').group(1)
        p.expect(","); p.expect("label"); t2 = p.rx(r'%("[^"]*"|[\w.$-]+)').group(1)
        return Instr(None, "condbr", (c, t1, t2), line)
    if op == "switch":
        ty = parse_type(p); v = parse_operand(p, ty); p.expect(","); p.expect("label"); dflt = p.rx(r'%("[^"]*"|[\w.$-]+)').group(1)
        p.expect("["); cases = []
        while not p.eat("]"):
            ct = parse_type(p); cv = parse_operand(p, ct); p.expect(","); p.expect("label"); cases.append((cv[1], p.rx(r'%("[^"]*"|[\w.$-]+)').group(1)))
        return Instr(None, "switch", (ty, v, dflt, cases), line)
    if op == "ret":
        ty = parse_type(p)
        if isinstance(ty, VoidT): return Instr(None, "ret", (ty, None), line)
        return Instr(None, "ret", (ty, parse_operand(p, ty)), line)
    if op == "phi":
        ty = parse_type(p); inc = []
        while True:
            p.expect("["); v = parse_operand(p, ty); p.expect(","); b = p.rx(r'%("[^"]*"|[\w.$-]+)').group(1); p.expect("]"); inc.append((v, b))
            if not p.eat(","): break
        return Instr(dst, "phi", (ty, inc), line)
    if op == "select":
        ct = parse_type(p); c = parse_operand(p, ct); p.expect(","); ty = parse_type(p); a = parse_operand(p, ty); p.expect(","); ty2 = parse_type(p); b = parse_operand(p, ty2)
        return Instr(dst, "select", (c, ty, a, b), line)
    if op == "call":
        while p.rx(r"(fast|nnan|ninf|nsz|arcp|contract|afn|reassoc|fastcc|ccc|coldcc)\b"): pass
        skip_attrs(p); rt = parse_type(p)
        callee = parse_operand(p, None); p.expect("("); args = []
        if not p.eat(")"):
            while True:
                at = parse_type(p); skip_attrs(p); args.append((at, parse_operand(p, at)))
                if p.eat(")"): break
                p.expect(",")
        return Instr(dst, "call", (rt, callee, args), line)
    if op == "unreachable": return Instr(None, op, (), line)
    if op == "extractvalue":
        ty = parse_type(p); v = parse_operand(p, ty); idx = []
        while p.eat(","): idx.append(int(p.rx(r"\d+").group(0)))
        return Instr(dst, op, (ty, v, idx), line)
    if op == "insertvalue":
        ty = parse_type(p); v = parse_operand(p, ty); p.expect(","); et = parse_type(p); e = parse_operand(p, et); idx = []
        while p.eat(","): idx.append(int(p.rx(r"\d+").group(0)))
        return Instr(dst, op, (ty, v, et, e, idx), line)
    if op == "freeze":
        ty = parse_type(p); v = parse_operand(p, ty); return Instr(dst, "freeze", (ty, v), line)
    raise NotImplementedError("instr: " + line)

def parse_module(text):
    m = Module(); cur = None; blk = None
    joined = []; acc = None
    for raw in text.splitlines():
        if acc is not None:
            acc += " " + raw.strip()
            if raw.strip() == "]": joined.append(acc); acc = None
            continue
        if raw.lstrip().startswith("switch ") and raw.rstrip().endswith("["): acc = raw.rstrip(); continue
        joined.append(raw)
    for raw in joined:
        line = raw.split(" ; ")[0] if not raw.lstrip().startswith(";") else ""
        line = re.sub(r",\s*!\w+ !\d+", "", line)
        line = re.sub(r"(,\s*align \d+)\s*$", "", line.rstrip())
        line = re.sub(r"\s#\d+\s*$", "", line)
        s = line.strip()
        if not s: continue
        if "@llvm.experimental.noalias.scope.decl" in s or "@llvm.dbg." in s: continue     # metadata-only intrinsics
        if cur is None:
            mm = re.match(r'%("[^"]*"|[\w.$-]+) = type (.*)$', s)
            if mm:
                t = parse_type(P(mm.group(2))); t.name = mm.group(1) if isinstance(t, StructT) else None
                m.structs[mm.group(1)] = t; continue
            mm = re.match(r'@("[^"]*"|[\w.$-]+) = (.*)$', s)
            if mm:
                rest = re.sub(r"^((private|internal|external|linkonce_odr|weak_odr|dso_local|unnamed_addr|local_unnamed_addr|constant|global|hidden|available_externally)\s+)+", "", mm.group(2))
                p = P(rest)
                try:
                    ty = parse_type(p); init = None if p.done() else parse_operand(p, ty)
                    m.globals[mm.group(1)] = (ty, init)
                except (SyntaxError, NotImplementedError) as e:
                    m.globals[mm.group(1)] = (None, None)
                continue
            if s.startswith("define"):
                mm = re.match(r'define .*?@("[^"]*"|[\w.$-]+)\((.*)\)[^()]*\{$', s)
                head = s[:s.index("@")]
                hp = P(re.sub(r"^define\s+((internal|fastcc|dso_local|linkonce_odr|weak_odr|hidden|available_externally|private|noundef|signext|zeroext|nonnull|noalias|align \d+|dereferenceable\(\d+\))\s+)*", "", head))
                skip_attrs(hp); rt = parse_type(hp)
                params = []; pp = P(mm.group(2))
                if not pp.done():
                    while True:
                        if pp.eat("..."): break
                        pt = parse_type(pp); skip_attrs(pp); nm = pp.rx(r'%("[^"]*"|[\w.$-]+)'); params.append((pt, nm.group(1) if nm else None))
                        if not pp.eat(","): break
                cur = Func(mm.group(1), params, rt); m.funcs[cur.name] = cur
                blk = "%entry0"; cur.blocks[blk] = []; cur.order.append(blk)
                # entry block label is the next unnamed number: number of params
                cur.entry_label = str(len(params)); cur.blocks[cur.entry_label] = cur.blocks.pop(blk); cur.order = [cur.entry_label]; blk = cur.entry_label
                continue
            if s.startswith("declare"):
                mm = re.search(r'@("[^"]*"|[\w.$-]+)\(', s); m.decls.add(mm.group(1)); continue
            continue
        if s == "}": cur = None; continue
        mm = re.match(r'("[^"]*"|[\w.$-]+):', s)
        if mm:
            if blk == cur.entry_label and not cur.blocks[blk]:
                # the entry block carries an explicit label (-fno-discard-value-names)
                del cur.blocks[blk]; cur.order.remove(blk); cur.entry_label = mm.group(1)
            blk = mm.group(1); cur.blocks[blk] = []; cur.order.append(blk); continue
        cur.blocks[blk].append(parse_instr(s))
    return m

# ------------------------------------------------------------------ values
def is_c(v): return isinstance(v, int)
def bv(v, bits): return z3.BitVecVal(v, bits) if is_c(v) else v
def mask(bits): return (1 << bits) - 1
def tosigned(v, bits): return v - (1 << bits) if v >> (bits - 1) else v
def simp(v):
    if is_c(v): return v
    v = z3.simplify(v)
    if z3.is_bv_value(v): return v.as_long()
    if z3.is_true(v): return True
    if z3.is_false(v): return False
    return v

class Ptr:
    __slots__ = ("obj", "off")
    def __init__(s, obj, off): s.obj, s.off = obj, off
    def __repr__(s): return f"Ptr({s.obj},{s.off})"
NULL = Ptr(0, 0)

class Obj:
    def __init__(s, size, name, data=None, writable=True):
        s.size, s.name, s.writable = size, name, writable
        s.data = data if data is not None else [None] * size   # None = uninitialised
        s.ptrs = {}
        s.freed = False

class Violation(Exception):
    def __init__(s, kind, msg, pc): super().__init__(f"{kind}: {msg}"); s.kind, s.pc = kind, pc
class Unsupported(Exception): pass
class NeedConcrete(Exception):
    def __init__(s, expr): s.expr = expr

class State:
    def __init__(s): s.objs = {}; s.next_obj = 1; s.pc = []; s.frames = []; s.notes = []
    pending_split = False
    def fork(s):
        n = State(); n.next_obj = s.next_obj; n.pc = list(s.pc); n.notes = list(s.notes)
        for k, o in s.objs.items():
            no = Obj(o.size, o.name, list(o.data), o.writable); no.ptrs = dict(o.ptrs); no.freed = o.freed; n.objs[k] = no
        n.frames = [Frame(f.fn, dict(f.regs), f.block, f.prev, f.ip, f.ret_dst, list(f.allocas)) for f in s.frames]
        return n
    def apply_subst(s, pairs):
        def sub(v):
            if v is None or isinstance(v, (int, bool)): return v
            if isinstance(v, Ptr):
                return v if isinstance(v.off, int) else Ptr(v.obj, simp(z3.substitute(v.off, *pairs)))
            if isinstance(v, tuple): return v
            return simp(z3.substitute(v, *pairs))
        for f in s.frames:
            for k in f.regs: f.regs[k] = sub(f.regs[k])
        for o in s.objs.values():
            o.data = [sub(b) for b in o.data]
            for k in o.ptrs: o.ptrs[k] = sub(o.ptrs[k])
        s.pc = [c for c in (simp(z3.substitute(c, *pairs)) if not isinstance(c, bool) else c for c in s.pc) if c is not True] + [v == val for v, val in pairs]
    def new_obj(s, size, name, data=None, writable=True):
        i = s.next_obj; s.next_obj += 1; s.objs[i] = Obj(size, name, data, writable); return Ptr(i, 0)

class Frame:
    def __init__(s, fn, regs, block, prev, ip, ret_dst, allocas): s.fn, s.regs, s.block, s.prev, s.ip, s.ret_dst, s.allocas = fn, regs, block, prev, ip, ret_dst, allocas

class Engine:
    def __init__(s, module, check_ub=True, max_steps=200000, budget_s=None):
        s.m = module; s.solver = z3.Solver(); s.max_steps = max_steps
        s.solver.set("timeout", 30000)       # a feasibility check that does not answer in 30 s makes the run inconclusive
        # check_ub: True = all obligations; "mem" = memory obligations only (for optimised IR, where speculated arithmetic would
        # raise false shift/overflow alarms); False = none beyond hard errors
        s.check_mem = bool(check_ub); s.check_ub = (check_ub is True)
        s.deadline = (time.time() + budget_s) if budget_s else None
        s.stats = dict(paths=0, forks=0, solver_calls=0, solver_time=0.0, steps=0)
        s.fresh = 0
    # -- solver helpers
    def sat(s, st, extra):
        s.stats["solver_calls"] += 1; t = time.time()
        s.solver.push(); s.solver.add(*st.pc); s.solver.add(extra); r = s.solver.check(); s.solver.pop()
        s.stats["solver_time"] += time.time() - t
        if r == z3.unknown: raise Unsupported("solver unknown")
        return r == z3.sat
    def must(s, st, cond, kind, msg):
        """assert cond holds on every model of the path; else violation"""
        cond = simp(cond)
        if cond is True: return
        if cond is False or s.sat(st, z3.Not(cond)):
            raise Violation(kind, msg, list(st.pc) + ([z3.Not(cond)] if cond is not False else []))
    # -- memory
    def _obj(s, st, p, n, write, what):
        if p.obj == 0: raise Violation("null-deref", what, list(st.pc))
        o = st.objs[p.obj]
        if o.freed: raise Violation("use-after-free", what, list(st.pc))
        if write and not o.writable: raise Violation("write-to-const", what, list(st.pc))
        off = simp(p.off)
        if is_c(off):
            if off < 0 or off + n > o.size: raise Violation("out-of-bounds", f"{what}: {o.name}[{off}:{off+n}] size {o.size}", list(st.pc))
        else:
            s.must(st, z3.And(z3.ULE(off, o.size - n), o.size >= n), "out-of-bounds", f"{what}: {o.name}[sym:{n}] size {o.size}")
        return o, off
    def load_bytes(s, st, p, n, what="load"):
        o, off = s._obj(st, p, n, False, what)
        if is_c(off):
            out = o.data[off:off + n]
        else:
            out = []
            for k in range(n):
                e = None
                for j in range(o.size - n + 1):
                    if not s.sat(st, off == j): continue
                    b = o.data[j + k]
                    if b is None: raise Violation("uninit-read", f"{what} {o.name}[{j+k}]", list(st.pc))
                    e = bv(b, 8) if e is None else z3.If(off == j, bv(b, 8), e)
                out.append(simp(e))
        return out
    def store_bytes(s, st, p, bs, what="store"):
        n = len(bs); o, off = s._obj(st, p, n, True, what)
        if is_c(off):
            for k in range(n):
                o.data[off + k] = bs[k]; o.ptrs.pop(off + k, None)
        else:
            for j in range(o.size - n + 1):
                if not s.sat(st, off == j): continue
                for k in range(n):
                    old = o.data[j + k]
                    old = bv(old, 8) if old is not None else z3.BitVec(f"uninit{s.fresh}", 8); s.fresh += 1
                    o.data[j + k] = simp(z3.If(off == j, bv(bs[k], 8), old))
    def load(s, st, ty, p):
        ty = resolve(s.m, ty)
        if isinstance(ty, PtrT):
            o, off = s._obj(st, p, 8, False, "load ptr")
            if not is_c(off): raise Unsupported("symbolic pointer load")
            if off in o.ptrs: return o.ptrs[off]
            bs = o.data[off:off + 8]
            if all(b == 0 for b in bs): return NULL
            # bytes that were never stored as a pointer (integers, junk, another union alternative) are used as a pointer
            raise Violation("wild-pointer-load", f"non-pointer bytes loaded as a pointer from {o.name}+{off}", list(st.pc))
        n = sizeof(s.m, ty); bs = s.load_bytes(st, p, n)
        for k, b in enumerate(bs):
            if b is None:
                # An indeterminate byte.  Merely copying it (struct copies lowered to integer loads, inactive union bytes, padding) is
                # benign; it becomes an obligation failure only when it reaches a branch, an address or a size (see uses_uninit).
                s.fresh += 1; s.has_uninit = True
                bs[k] = z3.BitVec(f"uninit{s.fresh}", 8)
        if isinstance(ty, (ArrT, StructT)): raise Unsupported("aggregate load")
        bits = ty.bits
        if all(is_c(b) for b in bs):
            v = 0
            for k, b in enumerate(bs): v |= b << (8 * k)
            return v & mask(bits)
        v = z3.Concat(*[bv(b, 8) for b in reversed(bs)]) if n > 1 else bv(bs[0], 8)
        if bits < 8 * n: v = z3.Extract(bits - 1, 0, v)
        return simp(v)
    def store(s, st, ty, v, p):
        ty = resolve(s.m, ty)
        if isinstance(ty, PtrT):
            o, off = s._obj(st, p, 8, True, "store ptr")
            if not is_c(off): raise Unsupported("symbolic pointer store")
            for k in range(8):
                o.data[off + k] = 0 if v.obj == 0 else 0xAA
                o.ptrs.pop(off + k, None)          # a stored null must not leave a stale pointer behind
            if v.obj != 0: o.ptrs[off] = v
            return
        n = sizeof(s.m, ty); bits = ty.bits
        if is_c(v): bs = [(v >> (8 * k)) & 0xFF for k in range(n)]
        else:
            if bits < 8 * n: v = z3.ZeroExt(8 * n - bits, v)
            bs = [simp(z3.Extract(8 * k + 7, 8 * k, v)) for k in range(n)]
        s.store_bytes(st, p, bs)
    # -- operands
    def val(s, st, fr, ty, opd):
        k = opd[0]
        if k == "reg": return fr.regs[opd[1]]
        ty = resolve(s.m, ty) if ty is not None else None
        if k == "int": return opd[1] & mask(ty.bits) if isinstance(ty, IntT) else opd[1]
        if k == "null": return NULL
        if k == "undef":
            if isinstance(ty, PtrT): return NULL
            s.fresh += 1; return z3.BitVec(f"undef{s.fresh}", ty.bits)
        if k == "float":
            bits = opd[1]
            if isinstance(ty, FloatT) and ty.bits == 32:
                import struct
                d = struct.unpack("<d", struct.pack("<Q", bits))[0]; return struct.unpack("<I", struct.pack("<f", d))[0]
            return bits
        if k == "floatdec":
            import struct
            return struct.unpack("<I", struct.pack("<f", opd[1]))[0] if ty.bits == 32 else struct.unpack("<Q", struct.pack("<d", opd[1]))[0]
        if k == "global": return s.global_ptr(st, opd[1])
        if k == "cgep":
            _, bt, base, idx = opd
            return s.gep(st, fr, bt, s.val(st, fr, None, base), idx, True)
        if k == "zero": return 0
        if k == "cinttoptr":
            x = s.val(st, fr, IntT(64), opd[1])
            return Ptr(x >> 40, x & mask(40)) if is_c(x) else (_ for _ in ()).throw(Unsupported("inttoptr of a symbolic constant expression"))
        if k == "cptrtoint":
            x = s.val(st, fr, None, opd[1])
            return Engine.add64((x.obj << 40), x.off) if isinstance(x, Ptr) else x
        raise Unsupported(f"operand {opd}")
    def global_ptr(s, st, name):
        if name in s.m.funcs or name in s.m.decls: return ("fn", name)
        key = "@" + name
        for i, o in st.objs.items():
            if o.name == key: return Ptr(i, 0)
        ty, init = s.m.globals[name]; n = sizeof(s.m, ty)
        data = [0] * n
        if init is not None and init[0] == "bytes": data = list(init[1]) + [0] * (n - len(init[1]))
        elif init is not None and init[0] == "zero": pass
        elif init is not None and init[0] == "int":
            data = [(init[1] >> (8 * k)) & 0xFF for k in range(n)]
        elif init is not None: raise Unsupported(f"global init {init[0]}")
        return st.new_obj(n, key, data, writable=False)
    def gep(s, st, fr, bt, base, idx, inb):
        off = base.off; ty = bt
        for i, (it, iv) in enumerate(idx):
            v = s.val(st, fr, it, iv); bits = resolve(s.m, it).bits
            if i == 0:
                sz = sizeof(s.m, ty)
            else:
                ty = resolve(s.m, ty)
                if isinstance(ty, StructT):
                    off = s.add64(off, field_off(s.m, ty, v)); ty = ty.fields[v]; continue
                ty = ty.el; sz = sizeof(s.m, ty)
            if is_c(v): d = tosigned(v, bits) * sz
            else: d = (z3.SignExt(64 - bits, v) if bits < 64 else v) * sz
            off = s.add64(off, d)
        off = simp(off)
        if inb and s.check_ub and base.obj != 0:
            o = st.objs[base.obj]
            if is_c(off):
                if off < 0 or off > o.size: st.notes.append(("gep-inbounds-excursion", o.name, off, o.size))
            # symbolic: checked at access time
        return Ptr(base.obj, off)
    @staticmethod
    def add64(a, b):
        if is_c(a) and is_c(b): return (a + b) & mask(64)
        return bv(a, 64) + bv(b & mask(64) if is_c(b) else b, 64)
    # -- arithmetic
    def binop(s, st, op, ty, a, b, flags):
        bits = resolve(s.m, ty).bits; M = mask(bits)
        if is_c(a) and is_c(b):
            sa, sb = tosigned(a, bits), tosigned(b, bits)
            if op == "add":
                if s.check_ub and "nsw" in flags and not (-(1 << (bits - 1)) <= sa + sb < (1 << (bits - 1))): raise Violation("signed-overflow", "add", list(st.pc))
                return (a + b) & M
            if op == "sub":
                if s.check_ub and "nsw" in flags and not (-(1 << (bits - 1)) <= sa - sb < (1 << (bits - 1))): raise Violation("signed-overflow", "sub", list(st.pc))
                return (a - b) & M
            if op == "mul":
                if s.check_ub and "nsw" in flags and not (-(1 << (bits - 1)) <= sa * sb < (1 << (bits - 1))): raise Violation("signed-overflow", "mul", list(st.pc))
                return (a * b) & M
            if op in ("udiv", "urem", "sdiv", "srem") and b == 0: raise Violation("div-by-zero", op, list(st.pc))
            if op == "udiv": return a // b
            if op == "urem": return a % b
            if op == "sdiv": q = abs(sa) // abs(sb); return (q if (sa < 0) == (sb < 0) else -q) & M
            if op == "srem": r = abs(sa) % abs(sb); return (r if sa >= 0 else -r) & M
            if op in ("shl", "lshr", "ashr"):
                if b >= bits:
                    if s.check_ub: raise Violation("shift-too-far", f"{op} by {b}", list(st.pc))
                    return 0
                if op == "shl": return (a << b) & M
                if op == "lshr": return a >> b
                return (sa >> b) & M
            if op == "and": return a & b
            if op == "or": return a | b
            if op == "xor": return a ^ b
        A, B = bv(a, bits), bv(b, bits)
        if op == "add":
            if s.check_ub and "nsw" in flags: s.must(st, z3.BVAddNoOverflow(A, B, True) & z3.BVAddNoUnderflow(A, B), "signed-overflow", "add nsw")
            return simp(A + B)
        if op == "sub":
            if s.check_ub and "nsw" in flags: s.must(st, z3.BVSubNoOverflow(A, B) & z3.BVSubNoUnderflow(A, B, True), "signed-overflow", "sub nsw")
            return simp(A - B)
        if op == "mul":
            if s.check_ub and "nsw" in flags: s.must(st, z3.BVMulNoOverflow(A, B, True) & z3.BVMulNoUnderflow(A, B), "signed-overflow", "mul nsw")
            return simp(A * B)
        if op in ("udiv", "urem", "sdiv", "srem"):
            s.must(st, B != 0, "div-by-zero", op)
            return simp({"udiv": z3.UDiv, "urem": z3.URem, "sdiv": lambda x, y: x / y, "srem": z3.SRem}[op](A, B))
        if op in ("shl", "lshr", "ashr"):
            if s.check_ub: s.must(st, z3.ULT(B, bits), "shift-too-far", op)
            return simp({"shl": lambda x, y: x << y, "lshr": z3.LShR, "ashr": lambda x, y: x >> y}[op](A, B))
        return simp({"and": lambda x, y: x & y, "or": lambda x, y: x | y, "xor": lambda x, y: x ^ y}[op](A, B))
    def icmp(s, pred, bits, a, b):
        if isinstance(a, Ptr) or isinstance(b, Ptr):
            if not (isinstance(a, Ptr) and isinstance(b, Ptr)): raise Unsupported("ptr/int compare")
            if a.obj != b.obj:
                if pred == "eq": return False
                if pred == "ne": return True
                # relational compare of pointers into different objects (undefined in ISO C; recorded as a note by the caller):
                # modelled with the synthetic address space used by ptrtoint (objects 2^40 apart, in allocation order)
                s.ptrcmp_notes = getattr(s, "ptrcmp_notes", 0) + 1
                a, b, bits = Engine.add64(a.obj << 40, a.off), Engine.add64(b.obj << 40, b.off), 64
            else:
                a, b, bits = a.off, b.off, 64
        if is_c(a) and is_c(b):
            sa, sb = tosigned(a, bits), tosigned(b, bits)
            return {"eq": a == b, "ne": a != b, "ult": a < b, "ule": a <= b, "ugt": a > b, "uge": a >= b,
                    "slt": sa < sb, "sle": sa <= sb, "sgt": sa > sb, "sge": sa >= sb}[pred]
        A, B = bv(a, bits), bv(b, bits)
        return simp({"eq": A == B, "ne": A != B, "ult": z3.ULT(A, B), "ule": z3.ULE(A, B), "ugt": z3.UGT(A, B), "uge": z3.UGE(A, B),
                     "slt": A < B, "sle": A <= B, "sgt": A > B, "sge": A >= B}[pred])
    @staticmethod
    def fsort(bits): return {16: z3.Float16(), 32: z3.Float32(), 64: z3.Float64()}[bits]
    def tofp(s, v, bits): return z3.fpBVToFP(bv(v, bits), s.fsort(bits))
    def b2i(s, c):
        if c is True: return 1
        if c is False: return 0
        return c if is_c(c) else simp(z3.If(c, z3.BitVecVal(1, 1), z3.BitVecVal(0, 1)))
    def i2b(s, v):
        if is_c(v): return bool(v & 1)
        if isinstance(v, bool): return v
        if z3.is_bool(v): return v
        return simp(v == 1)
    # -- main loop
    def run(s, fname, args, st=None, on_done=None):
        """explore all paths of fname(args) from state st; calls on_done(state, retval) per terminated path"""
        st = st or State(); fn = s.m.funcs[fname]
        regs = {nm: a for (_, nm), a in zip(fn.params, args)}
        # unnamed params are numbered 0..n-1
        for i, ((_, nm), a) in enumerate(zip(fn.params, args)):
            if nm is None: regs[str(i)] = a
        st.frames.append(Frame(fn, regs, fn.entry_label, None, 0, None, []))
        work = [st]; results = []
        while work:
            st = work.pop()
            if s.deadline is not None and time.time() > s.deadline:
                raise Unsupported("time budget of this run exceeded (inconclusive, not a pass)")
            try:
                r = s.run_path(st, work)
            except Violation as v:
                results.append(("violation", st, v)); s.stats["paths"] += 1; continue
            s.stats["paths"] += 1
            results.append(("ok", st, r))
            if on_done: on_done(st, r)
        return results
    def try_split(s, st, work, limit=64):
        from z3.z3util import get_vars
        c = st.pc[-1]
        if isinstance(c, bool): return
        vs = get_vars(c)
        if not vs or len(vs) > 8: return
        assigns = []; s.stats["solver_calls"] += 1; t = time.time()
        s.solver.push(); s.solver.add(*st.pc)
        while len(assigns) <= limit and s.solver.check() == z3.sat:
            mdl = s.solver.model(); a = [(v, mdl.eval(v, model_completion=True)) for v in vs]
            assigns.append(a); s.solver.add(z3.Or(*[v != val for v, val in a]))
        s.solver.pop(); s.stats["solver_time"] += time.time() - t
        if len(assigns) > limit or not assigns: return
        s.stats["splits"] = s.stats.get("splits", 0) + 1
        for a in assigns[1:]:
            o = st.fork(); o.apply_subst(a); work.append(o); s.stats["forks"] += 1
        st.apply_subst(assigns[0])
    def run_path(s, st, work):
        steps = 0
        if st.pending_split:
            st.pending_split = False; s.try_split(st, work)
        while True:
            fr = st.frames[-1]; ins = fr.fn.blocks[fr.block][fr.ip]; fr.ip += 1
            steps += 1; s.stats["steps"] += 1
            if steps > s.max_steps: raise Unsupported("step bound exceeded")
            op = ins.op; a = ins.a
            try:
                s.step(st, fr, ins, op, a, work)
            except NeedConcrete as nc:
                fr.ip -= 1; vals = []; e = nc.expr
                while len(vals) < 4096:
                    s.solver.push(); s.solver.add(*st.pc); s.solver.add(*[e != v for v in vals]); r = s.solver.check()
                    if r == z3.sat: vals.append(s.solver.model().eval(e, model_completion=True).as_long())
                    s.solver.pop()
                    if r != z3.sat: break
                for v in vals[1:]:
                    s.stats["forks"] += 1; o = st.fork(); o.pc.append(e == v); work.append(o)
                st.pc.append(e == vals[0])
                continue
            if s.retval is not s.NORET:
                rv = s.retval; s.retval = s.NORET; return rv
    NORET = object(); retval = NORET
    def step(s, st, fr, ins, op, a, work):
            if True:
                pass
            if op in BINOPS:
                fr.regs[ins.dst] = s.binop(st, op, a[0], s.val(st, fr, a[0], a[1]), s.val(st, fr, a[0], a[2]), a[3])
            elif op == "icmp":
                ty = resolve(s.m, a[1]); bits = 64 if isinstance(ty, PtrT) else ty.bits
                fr.regs[ins.dst] = s.b2i(s.icmp(a[0], bits, s.val(st, fr, a[1], a[2]), s.val(st, fr, a[1], a[3])))
            elif op == "fcmp":
                bits = resolve(s.m, a[1]).bits; x = s.tofp(s.val(st, fr, a[1], a[2]), bits); y = s.tofp(s.val(st, fr, a[1], a[3]), bits)
                pred = a[0]; unord = z3.Or(z3.fpIsNaN(x), z3.fpIsNaN(y))
                base = {"eq": z3.fpEQ, "gt": z3.fpGT, "ge": z3.fpGEQ, "lt": z3.fpLT, "le": z3.fpLEQ, "ne": lambda p, q: z3.Not(z3.fpEQ(p, q))}
                if pred == "ord": c = z3.Not(unord)
                elif pred == "uno": c = unord
                elif pred == "true": c = True
                elif pred == "false": c = False
                elif pred[0] == "o": c = z3.And(z3.Not(unord), base[pred[1:]](x, y))
                else: c = z3.Or(unord, base[pred[1:]](x, y))
                fr.regs[ins.dst] = s.b2i(simp(c))
            elif op in FBIN:
                bits = resolve(s.m, a[0]).bits; x = s.tofp(s.val(st, fr, a[0], a[1]), bits); y = s.tofp(s.val(st, fr, a[0], a[2]), bits)
                r = {"fadd": z3.fpAdd, "fsub": z3.fpSub, "fmul": z3.fpMul, "fdiv": z3.fpDiv}[op](z3.RNE(), x, y)
                fr.regs[ins.dst] = simp(z3.fpToIEEEBV(r))
            elif op in CASTS:
                st_, v, dt = a; sty = resolve(s.m, st_); dty = resolve(s.m, dt); x = s.val(st, fr, st_, v)
                if op == "bitcast": r = x
                elif op == "zext": r = x if is_c(x) else simp(z3.ZeroExt(dty.bits - sty.bits, x))
                elif op == "sext": r = tosigned(x, sty.bits) & mask(dty.bits) if is_c(x) else simp(z3.SignExt(dty.bits - sty.bits, x))
                elif op == "trunc": r = x & mask(dty.bits) if is_c(x) else simp(z3.Extract(dty.bits - 1, 0, x))
                elif op == "ptrtoint": r = Engine.add64((x.obj << 40), x.off) if isinstance(x, Ptr) else x
                elif op == "inttoptr":
                    x = simp(x)
                    if is_c(x): r = Ptr(x >> 40, x & mask(40))
                    else: raise Unsupported("inttoptr symbolic")
                elif op in ("fpext", "fptrunc"): r = simp(z3.fpToIEEEBV(z3.fpFPToFP(z3.RNE(), s.tofp(x, sty.bits), s.fsort(dty.bits))))
                elif op in ("sitofp", "uitofp"):
                    X = bv(x, sty.bits); r = simp(z3.fpToIEEEBV((z3.fpSignedToFP if op == "sitofp" else z3.fpUnsignedToFP)(z3.RNE(), X, s.fsort(dty.bits))))
                else: raise Unsupported(op)
                fr.regs[ins.dst] = r
            elif op == "alloca":
                n = s.val(st, fr, IntT(64), a[1]); p = st.new_obj(sizeof(s.m, a[0]) * n, f"alloca.{fr.fn.name}.{ins.dst}"); fr.allocas.append(p.obj); fr.regs[ins.dst] = p
            elif op == "load": fr.regs[ins.dst] = s.load(st, a[0], s.val(st, fr, None, a[1]))
            elif op == "store": s.store(st, a[0], s.val(st, fr, a[0], a[1]), s.val(st, fr, None, a[2]))
            elif op == "getelementptr": fr.regs[ins.dst] = s.gep(st, fr, a[0], s.val(st, fr, None, a[1]), a[2], a[3])
            elif op == "br": fr.prev, fr.block, fr.ip = fr.block, a[0], 0
            elif op == "condbr":
                c = s.i2b(s.val(st, fr, IntT(1), a[0])); split_after = False
                if c is True or c is False: tgt = a[1] if c else a[2]
                else:
                    if s.uses_uninit(c): raise Violation("uninit-use", f"branch in {fr.fn.name} depends on an uninitialised value", list(st.pc))
                    t_ok = s.sat(st, c); f_ok = s.sat(st, z3.Not(c))
                    if t_ok and f_ok:
                        s.stats["forks"] += 1
                        o = st.fork(); o.pc.append(z3.Not(c)); of = o.frames[-1]; of.prev, of.block, of.ip = of.block, a[2], 0; work.append(o)
                        o.pending_split = True
                        st.pc.append(c); tgt = a[1]; split_after = True
                    elif t_ok: tgt = a[1]
                    elif f_ok: tgt = a[2]
                    else: raise Unsupported("infeasible path")
                fr.prev, fr.block, fr.ip = fr.block, tgt, 0
                if locals().get("split_after"):
                    split_after = False; s.try_split(st, work)
            elif op == "switch":
                v = s.val(st, fr, a[0], a[1]); bits = resolve(s.m, a[0]).bits
                if is_c(v):
                    tgt = dict(a[3]).get(v if v < (1 << (bits - 1)) else v, None)
                    tgt = next((l for cv, l in a[3] if cv & mask(bits) == v), a[2])
                else:
                    opts = [(v == (cv & mask(bits)), l) for cv, l in a[3]] + [(z3.And(*[v != (cv & mask(bits)) for cv, _ in a[3]]), a[2])]
                    feas = [(c, l) for c, l in opts if s.sat(st, c)]
                    for c, l in feas[1:]:
                        s.stats["forks"] += 1
                        o = st.fork(); o.pc.append(c); of = o.frames[-1]; of.prev, of.block, of.ip = of.block, l, 0; work.append(o)
                    st.pc.append(feas[0][0]); tgt = feas[0][1]
                fr.prev, fr.block, fr.ip = fr.block, tgt, 0
            elif op == "phi":
                # evaluate all phis of the block simultaneously
                blk = fr.fn.blocks[fr.block]; i0 = fr.ip - 1; new = {}
                j = i0
                while j < len(blk) and blk[j].op == "phi":
                    ty, inc = blk[j].a
                    for v, b in inc:
                        if b == fr.prev: new[blk[j].dst] = s.val(st, fr, ty, v); break
                    else: raise Unsupported(f"phi without incoming for {fr.prev}")
                    j += 1
                fr.regs.update(new); fr.ip = j
            elif op == "select":
                c = s.i2b(s.val(st, fr, IntT(1), a[0])); x = s.val(st, fr, a[1], a[2]); y = s.val(st, fr, a[1], a[3])
                if c is True: r = x
                elif c is False: r = y
                elif isinstance(x, Ptr) or isinstance(y, Ptr):
                    if x.obj == y.obj: r = Ptr(x.obj, simp(z3.If(c, bv(x.off, 64), bv(y.off, 64))))
                    else: raise Unsupported("select between different objects")
                else:
                    bits = resolve(s.m, a[1]).bits; r = simp(z3.If(c, bv(x, bits), bv(y, bits)))
                fr.regs[ins.dst] = r
            elif op == "freeze": fr.regs[ins.dst] = s.val(st, fr, a[0], a[1])
            elif op == "call":
                rt, callee, args = a
                if callee[0] != "global": raise Unsupported("indirect call")
                name = callee[1]; argv = [s.val(st, fr, t, o) for t, o in args]
                if name in s.m.funcs:
                    fn = s.m.funcs[name]; regs = {}
                    for i, ((_, nm), v) in enumerate(zip(fn.params, argv)): regs[nm if nm is not None else str(i)] = v
                    st.frames.append(Frame(fn, regs, fn.entry_label, None, 0, ins.dst, []))
                else:
                    r = s.intrinsic(st, name, argv, args)
                    if ins.dst is not None: fr.regs[ins.dst] = r
            elif op == "ret":
                rv = None if a[1] is None else s.val(st, fr, a[0], a[1])
                for oid in fr.allocas: st.objs[oid].freed = True
                st.frames.pop()
                if not st.frames: s.retval = rv; return
                if fr.ret_dst is not None: st.frames[-1].regs[fr.ret_dst] = rv
            elif op == "unreachable": raise Violation("unreachable-reached", fr.fn.name, list(st.pc))
            else: raise Unsupported(op)
    has_uninit = False
    def uses_uninit(s, e):
        if not s.has_uninit or is_c(e) or isinstance(e, bool): return False
        from z3.z3util import get_vars
        return any(str(v).startswith("uninit") for v in get_vars(e))
    def concretize(s, st, e):
        """value of e if the path condition determines it uniquely; otherwise NeedConcrete (the caller forks on its feasible values)"""
        e = simp(e)
        if is_c(e): return e
        if s.uses_uninit(e): raise Violation("uninit-use", "a size or count depends on an uninitialised value", list(st.pc))
        s.stats["solver_calls"] += 1
        s.solver.push(); s.solver.add(*st.pc); r = s.solver.check()
        v = s.solver.model().eval(e, model_completion=True).as_long() if r == z3.sat else None
        s.solver.pop()
        if v is None: raise Unsupported("infeasible or unknown path while concretising")
        if s.sat(st, e != v): raise NeedConcrete(e)
        return v
    def intrinsic(s, st, name, argv, args):
        if name.startswith("llvm.lifetime") or name.startswith("llvm.dbg") or name.startswith("llvm.assume") or name.startswith("llvm.experimental.noalias"): return None
        if name in ("memcpy", "memmove"): name = "llvm." + name + ".ext"
        if name == "memset": name = "llvm.memset.ext"
        if name.startswith("llvm.memcpy") or name.startswith("llvm.memmove"):
            dst, src, n = argv[0], argv[1], s.concretize(st, argv[2])
            if n == 0: return dst if name.endswith(".ext") else None
            bs = s.load_bytes(st, src, n, name)
            if name.startswith("llvm.memcpy") and dst.obj == src.obj and is_c(dst.off) and is_c(src.off) and abs(dst.off - src.off) < n and dst.off != src.off:
                raise Violation("memcpy-overlap", name, list(st.pc))
            # uninitialised bytes may be copied (e.g. struct padding) - keep None
            o, off = s._obj(st, dst, n, True, name)
            if is_c(off):
                so = st.objs[src.obj]
                for k in range(n):
                    o.data[off + k] = bs[k]; o.ptrs.pop(off + k, None)
                    if is_c(src.off) and (src.off + k) in so.ptrs: o.ptrs[off + k] = so.ptrs[src.off + k]
            else: s.store_bytes(st, dst, bs, name)
            return dst if name.endswith(".ext") else None
        if name.startswith("llvm.memset"):
            dst, v, n = argv[0], argv[1], s.concretize(st, argv[2])
            if not is_c(v): v = simp(z3.Extract(7, 0, v)) if v.size() > 8 else v
            else: v &= 0xFF
            if n: s.store_bytes(st, dst, [v] * n, name)
            return dst if name.endswith(".ext") else None
        if name.startswith("llvm.fabs"):
            bits = 32 if "f32" in name else 64; x = argv[0]
            return x & mask(bits - 1) if is_c(x) else simp(x & mask(bits - 1))
        if name.startswith("llvm.usub.sat"):
            x, y = argv; bits = 64
            if is_c(x) and is_c(y): return max(0, x - y)
            return simp(z3.If(z3.UGE(bv(x, bits), bv(y, bits)), bv(x, bits) - bv(y, bits), z3.BitVecVal(0, bits)))
        if name.startswith("llvm.umin") or name.startswith("llvm.umax"):
            bits = int(name.rsplit("i", 1)[1]); x, y = bv(argv[0], bits), bv(argv[1], bits)
            return simp(z3.If(z3.ULT(x, y), x, y) if "umin" in name else z3.If(z3.UGT(x, y), x, y))
        if name == "_Znwm" or name == "malloc":
            n = s.concretize(st, argv[0])
            s.fresh += 1
            return st.new_obj(n, f"heap{st.next_obj}", [z3.BitVec(f"heapjunk{s.fresh}_{i}", 8) for i in range(n)])
        if name == "_ZdlPv" or name == "free":
            p = argv[0]
            if p.obj == 0: return None
            o = st.objs[p.obj]
            if o.freed: raise Violation("double-free", o.name, list(st.pc))
            if not o.name.startswith("heap") or simp(p.off) != 0: raise Violation("bad-free", o.name, list(st.pc))
            o.freed = True; return None
        if name in ("__assert_fail", "abort", "_ZSt20__throw_length_errorPKc", "_ZSt17__throw_bad_allocv"):
            raise Violation("abort-called", name, list(st.pc))
        raise Unsupported("external " + name)

# ------------------------------------------------------------------ helpers for harnesses
def sym_bytes(prefix, n): return [z3.BitVec(f"{prefix}{i}", 8) for i in range(n)]
