"""C++ target through a C mirror: the harness converts the generated **C** struct (whose layout the spec machinery already reads)
into the generated **C++** object field by field, calls the generated C++ serialize()/deserialize(), and converts back.  All queries
of llsym/codec.py then apply unchanged to the C++ codecs, and C <-> C++ agreement is a plain cross-build comparison.

The conversion code is generated from the pydsdl model (public names of both generated APIs only: members, std::array/std::bitset/
std::vector element access, set_X/get_X/is_X of unions)."""
from __future__ import annotations

import pathlib
import typing

import pydsdl

from . import build, codec, core, dsdlspec as D


def cpp_name(t: pydsdl.CompositeType) -> str:
    comps = t.full_name.split(".")
    return "::".join(comps[:-1] + [f"{comps[-1]}_{t.version.major}_{t.version.minor}"])


def cpp_header(t: pydsdl.CompositeType) -> str:
    return codec.header_of(t)[:-2] + ".hpp"


def has_bool_array(t: pydsdl.SerializableType) -> bool:
    """std::bitset / std::vector<bool> members: their word-level bit manipulation does not finish within the budget (stated as not covered)"""
    if isinstance(t, pydsdl.ArrayType):
        return isinstance(t.element_type, pydsdl.BooleanType) or has_bool_array(t.element_type)
    if isinstance(t, pydsdl.CompositeType):
        return any(has_bool_array(f.data_type) for f in D.inner(t).fields_except_padding)
    return False


def has_variable_array(t: pydsdl.SerializableType) -> bool:
    if isinstance(t, pydsdl.VariableLengthArrayType):
        return True
    if isinstance(t, pydsdl.ArrayType):
        return has_variable_array(t.element_type)
    if isinstance(t, pydsdl.CompositeType):
        return any(has_variable_array(f.data_type) for f in D.inner(t).fields_except_padding)
    return False


class _Gen:
    def __init__(self) -> None:
        self.lines: typing.List[str] = []
        self.n = 0

    def var(self) -> str:
        self.n += 1
        return f"i{self.n}"

    def c2cpp(self, t: pydsdl.SerializableType, c: str, o: str, ind: str = "  ") -> None:
        """emit statements assigning C value expression/lvalue `c` to C++ lvalue `o`"""
        L = self.lines
        if isinstance(t, pydsdl.PrimitiveType):
            L.append(f"{ind}{o} = {c};")
        elif isinstance(t, pydsdl.ArrayType):
            var = isinstance(t, pydsdl.VariableLengthArrayType)
            i = self.var()
            if isinstance(t.element_type, pydsdl.BooleanType):
                bp = f"{c}.bitpacked" if var else f"{c}_bitpacked_"
                if var:
                    L.append(f"{ind}{o}.resize({c}.count);")
                n = f"{c}.count" if var else str(t.capacity)
                L.append(f"{ind}for (size_t {i} = 0; {i} < {n}; ++{i}) {{ {o}[{i}] = (({bp}[{i} / 8U] >> ({i} % 8U)) & 1U) != 0; }}")
            else:
                if var:
                    L.append(f"{ind}{o}.resize({c}.count);")
                n = f"{c}.count" if var else str(t.capacity)
                el = f"{c}.elements[{i}]" if var else f"{c}[{i}]"
                L.append(f"{ind}for (size_t {i} = 0; {i} < {n}; ++{i}) {{")
                self.c2cpp(t.element_type, el, f"{o}[{i}]", ind + "  ")
                L.append(f"{ind}}}")
        elif isinstance(t, pydsdl.CompositeType):
            it = D.inner(t)
            if isinstance(it, pydsdl.UnionType):
                for k, f in enumerate(it.fields):
                    L.append(f"{ind}{'if' if k == 0 else 'else if'} ({c}._tag_ == {k}U) {{")
                    L.append(f"{ind}  auto& ref = {o}.set_{f.name}();")
                    self.c2cpp(f.data_type, f"{c}.{f.name}", "ref", ind + "  ")
                    L.append(f"{ind}}}")
            else:
                for f in it.fields_except_padding:
                    self.c2cpp(f.data_type, f"{c}.{f.name}", f"{o}.{f.name}", ind)
        else:
            raise TypeError(t)

    def cpp2c(self, t: pydsdl.SerializableType, o: str, c: str, ind: str = "  ") -> None:
        L = self.lines
        if isinstance(t, pydsdl.PrimitiveType):
            L.append(f"{ind}{c} = {o};")
        elif isinstance(t, pydsdl.ArrayType):
            var = isinstance(t, pydsdl.VariableLengthArrayType)
            i = self.var()
            n = f"{o}.size()" if var else str(t.capacity)
            if var:
                L.append(f"{ind}{c}.count = {o}.size();")
            if isinstance(t.element_type, pydsdl.BooleanType):
                bp = f"{c}.bitpacked" if var else f"{c}_bitpacked_"
                nb = (t.capacity + 7) // 8
                L.append(f"{ind}for (size_t {i} = 0; {i} < {nb}; ++{i}) {{ {bp}[{i}] = 0; }}")
                L.append(f"{ind}for (size_t {i} = 0; {i} < {n} && {i} < {t.capacity}; ++{i}) {{ if ({o}[{i}]) {{ {bp}[{i} / 8U] = (uint8_t)({bp}[{i} / 8U] | (1U << ({i} % 8U))); }} }}")
            else:
                el = f"{c}.elements[{i}]" if var else f"{c}[{i}]"
                L.append(f"{ind}for (size_t {i} = 0; {i} < {n} && {i} < {t.capacity}; ++{i}) {{")
                self.cpp2c(t.element_type, f"{o}[{i}]", el, ind + "  ")
                L.append(f"{ind}}}")
        elif isinstance(t, pydsdl.CompositeType):
            it = D.inner(t)
            if isinstance(it, pydsdl.UnionType):
                for k, f in enumerate(it.fields):
                    L.append(f"{ind}{'if' if k == 0 else 'else if'} ({o}.is_{f.name}()) {{")
                    L.append(f"{ind}  {c}._tag_ = {k}U;")
                    self.cpp2c(f.data_type, f"{o}.get_{f.name}()", f"{c}.{f.name}", ind + "  ")
                    L.append(f"{ind}}}")
            else:
                for f in it.fields_except_padding:
                    self.cpp2c(f.data_type, f"{o}.{f.name}", f"{c}.{f.name}", ind)
        else:
            raise TypeError(t)


class CppTypeUnit(codec.TypeUnit):
    """same interface as codec.TypeUnit; `gen` is the C generation (mirror structs), `gen_cpp` the C++ generation"""
    SUFFIX = ".cpp"
    CXX = True
    VALID_OBJECTS_ONLY = True

    def __init__(self, t: pydsdl.CompositeType, gen_c: pathlib.Path, gen_cpp: pathlib.Path, work: pathlib.Path, variant: str = "B", std: str = "c++14",
                 defines: typing.Sequence[str] = ()):
        self.gen_cpp, self.std = gen_cpp, std
        self._t = t
        codec.TypeUnit.__init__(self, t, gen_c, work, variant, defines, incs=[gen_cpp])

    def harness_text(self) -> str:
        t = self._t if hasattr(self, "_t") else self.t
        cn, pn = codec.cname(t), cpp_name(t)
        g1, g2 = _Gen(), _Gen()
        g1.c2cpp(t, "(*c)", "o")
        g2.cpp2c(t, "o", "(*c)")
        return (f"#include <cassert>\n#include <{cpp_header(t)}>\n#include <{codec.header_of(t)}>\n#include <cstdint>\n#include <cstddef>\n"
                f"static inline void c2cpp(const {cn}* c, {pn}& o) {{\n" + "\n".join(g1.lines) + "\n}\n"
                f"static inline void cpp2c(const {pn}& o, {cn}* c) {{\n" + "\n".join(g2.lines) + "\n}\n"
                f"extern \"C\" int8_t h_ser(const {cn}* c, uint8_t* b, size_t* s) {{\n"
                f"  {pn} o; c2cpp(c, o);\n  auto r = serialize(o, nunavut::support::bitspan(b, *s));\n"
                f"  if (!r) {{ return (int8_t)(-(int) r.error()); }}\n  *s = *r; return 0;\n}}\n"
                f"extern \"C\" int8_t h_des({cn}* c, const uint8_t* b, size_t* s) {{\n"
                f"  {pn} o;\n  auto r = deserialize(o, nunavut::support::const_bitspan(b, *s));\n"
                f"  if (!r) {{ return (int8_t)(-(int) r.error()); }}\n  cpp2c(o, c); *s = *r; return 0;\n}}\n"
                # deserialization into an object that already holds a value (the C struct passed in is the prior state)
                f"extern \"C\" int8_t h_des_prior({cn}* c, const uint8_t* b, size_t* s) {{\n"
                f"  {pn} o; c2cpp(c, o);\n  auto r = deserialize(o, nunavut::support::const_bitspan(b, *s));\n"
                f"  if (!r) {{ return (int8_t)(-(int) r.error()); }}\n  cpp2c(o, c); *s = *r; return 0;\n}}\n")

    # the C layout probe is compiled as C; the harness as C++
    def _compile_ir(self) -> str:
        return build.c_to_ir(self.tu, self.incs, self.variant, self.defines, cxx=True, std=self.std)
