"""Table-driven unit harnesses for support-library primitives (C and C++): generates the wrapper TU, a native driver
(for co-simulation and replay) and runs one primitive on one concrete *shape* with all *data* symbolic."""
from __future__ import annotations

import pathlib
import subprocess
import typing

import z3

from . import core
from .core import bv

# argument kinds: ('buf', name)  pointer to a byte buffer whose size is part of the shape
#                 ('u64'|'u32'|'u16'|'u8'|'size', name)  scalar
RET_BITS = {"void": 0, "i8": 8, "u8": 8, "u16": 16, "u32": 32, "u64": 64, "bool": 8, "size": 64, "i32": 32}
C_TY = {"u64": "uint64_t", "u32": "uint32_t", "u16": "uint16_t", "u8": "uint8_t", "size": "size_t", "i8": "int8_t", "bool": "uint8_t",
        "void": "void", "i32": "int32_t"}
BITS = {"u64": 64, "u32": 32, "u16": 16, "u8": 8, "size": 64}


class Prim:
    def __init__(self, name: str, ret: str, args: typing.List[typing.Tuple[str, str]], body: str):
        self.name, self.ret, self.args, self.body = name, ret, args, body

    def c_decl(self) -> str:
        ps = []
        for k, n in self.args:
            ps.append(("uint8_t* " if k == "buf" else "const uint8_t* " if k == "cbuf" else C_TY[k] + " ") + n)
        return f"{C_TY[self.ret]} w_{self.name}({', '.join(ps)})"

    def c_wrapper(self) -> str:
        return f"{self.c_decl()} {{ {self.body} }}\n"


def wrapper_tu(include: str, prims: typing.List[Prim], prologue: str = "", extern_c: bool = False) -> str:
    out = [f"#include {include}\n#include <string.h>\n#include <stdint.h>\n#include <stddef.h>\n", prologue]
    for p in prims:
        out.append(('extern "C" ' if extern_c else "") + p.c_wrapper())
    return "".join(out)


def driver_tu(include: str, prims: typing.List[Prim], prologue: str = "", extern_c: bool = False) -> str:
    """native driver:  drv <prim> <arg>...   buffers as hex strings ('-' = empty, exactly-sized malloc); prints ret and buffers"""
    out = [wrapper_tu(include, prims, prologue, extern_c), "#include <stdio.h>\n#include <stdlib.h>\n",
           "static uint8_t* hexbuf(const char* s, size_t* n){ size_t l = (s[0]=='-') ? 0 : strlen(s)/2; uint8_t* b = (uint8_t*)malloc(l ? l : 1);"
           " if(!l){ free(b); b = (uint8_t*)malloc(0); } for(size_t i=0;i<l;i++){ unsigned v; sscanf(s+2*i, \"%2x\", &v); b[i]=(uint8_t)v; } *n=l; return b; }\n",
           "static void phex(const char* nm, const uint8_t* b, size_t n){ printf(\" %s=\", nm); if(!n) printf(\"-\"); for(size_t i=0;i<n;i++) printf(\"%02x\", b[i]); }\n",
           "int main(int argc, char** argv){ if(argc<2) return 2; int a = 2; (void)a;\n"]
    for p in prims:
        out.append(f"  if(!strcmp(argv[1], \"{p.name}\")){{\n")
        call = []
        for k, n in p.args:
            if k in ("buf", "cbuf"):
                out.append(f"    size_t n_{n}; uint8_t* {n} = hexbuf(argv[a++], &n_{n});\n")
            else:
                out.append(f"    {C_TY[k]} {n} = ({C_TY[k]}) strtoull(argv[a++], NULL, 0);\n")
            call.append(n)
        if p.ret == "void":
            out.append(f"    w_{p.name}({', '.join(call)}); printf(\"ret=void\");\n")
        else:
            out.append(f"    unsigned long long r = (unsigned long long)({C_TY[p.ret].replace('int8_t', 'uint8_t') if p.ret == 'i8' else C_TY[p.ret]}) w_{p.name}({', '.join(call)}); printf(\"ret=%llu\", r);\n")
        for k, n in p.args:
            if k in ("buf", "cbuf"):
                out.append(f"    phex(\"{n}\", {n}, n_{n}); free({n});\n")
        out.append("    printf(\"\\n\"); return 0; }\n")
    out.append("  return 3; }\n")
    return "".join(out)


def run_native(drv: pathlib.Path, prim: Prim, argvals: typing.Dict[str, typing.Any]) -> typing.Tuple[int, typing.Dict[str, typing.Any], str]:
    """argvals: name -> int | bytes.  returns (returncode, {ret: int|None, <buf>: bytes}, raw output)"""
    argv = [str(drv), prim.name]
    for k, n in prim.args:
        v = argvals[n]
        argv.append((bytes(v).hex() or "-") if k in ("buf", "cbuf") else str(int(v)))
    p = subprocess.run(argv, stdout=subprocess.PIPE, stderr=subprocess.PIPE, text=True, timeout=60)
    res: typing.Dict[str, typing.Any] = {}
    if p.returncode == 0:
        for tok in p.stdout.split():
            k, _, v = tok.partition("=")
            if k == "ret":
                res["ret"] = None if v == "void" else int(v)
            else:
                res[k] = b"" if v == "-" else bytes.fromhex(v)
    return p.returncode, res, (p.stdout + p.stderr)[-1500:]


class Case:
    """One symbolic execution of a primitive on a concrete shape."""

    def __init__(self, eng: core.Engine, prim: Prim, sizes: typing.Dict[str, int], scalars: typing.Dict[str, typing.Any],
                 readonly: typing.Sequence[str] = (), alias: typing.Optional[typing.Dict[str, str]] = None):
        """sizes: buffer name -> bytes (symbolic contents); scalars: name -> concrete int or None (= symbolic);
        alias: buffer name -> other buffer name (same object)"""
        self.eng, self.prim = eng, prim
        self.st = core.State()
        self.init: typing.Dict[str, typing.List[typing.Any]] = {}
        self.ptr: typing.Dict[str, core.Ptr] = {}
        self.sym: typing.Dict[str, typing.Any] = {}
        args = []
        alias = alias or {}
        for k, n in prim.args:
            if k in ("buf", "cbuf"):
                if n in alias:
                    self.ptr[n] = self.ptr[alias[n]]
                    self.init[n] = self.init[alias[n]]
                else:
                    sz = sizes[n]
                    data = core.sym_bytes(n + "_", sz)
                    self.init[n] = list(data)
                    self.ptr[n] = self.st.new_obj(sz, n, list(data), writable=(k == "buf" and n not in readonly))
                args.append(self.ptr[n])
            else:
                v = scalars.get(n)
                if v is None:
                    v = z3.BitVec(n, BITS[k])
                    self.sym[n] = v
                args.append(v)
        self.args = args

    def run(self):
        return self.eng.run("w_" + self.prim.name, self.args, self.st)

    def final(self, st: core.State, name: str) -> typing.List[typing.Any]:
        return st.objs[self.ptr[name].obj].data


def bits_le(bs: typing.Sequence[typing.Any], width: typing.Optional[int] = None):
    """little-endian bit string of a byte list as one bit-vector (byte i = bits 8i..8i+7); width pads with zeros"""
    n = len(bs)
    if n == 0:
        v = None
    elif n == 1:
        v = bv(bs[0], 8)
    else:
        v = z3.Concat(*[bv(b, 8) for b in reversed(bs)])
    if width is None:
        return v
    if v is None:
        return z3.BitVecVal(0, width)
    if width > 8 * n:
        return z3.ZeroExt(width - 8 * n, v)
    if width < 8 * n:
        return z3.Extract(width - 1, 0, v)
    return v


def model_bytes(model: z3.ModelRef, bs: typing.Sequence[typing.Any]) -> bytes:
    out = []
    for b in bs:
        if isinstance(b, int):
            out.append(b)
        else:
            out.append(model.eval(b, model_completion=True).as_long())
    return bytes(out)
