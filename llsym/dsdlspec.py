"""Reference model of DSDL (Cyphal Specification section 3.7) serialization as z3 terms.  Shares no code with nunavut.

The model walks the **pydsdl** description of a type.  Shape-determining quantities (array lengths, union tags, delimiter
headers) are *chosen* through a `Chooser` that evaluates them under a z3 model and records the equality it relied on, so that
one pass yields   cond(shape)  /\\  expected output as terms of concrete layout.   The caller loops
  "find a model of the path not yet covered -> spec under that model -> prove path /\\ cond => match"
which is exhaustive by construction (see checks/codec.py).

Value trees ('Val'):  ('prim', t, storage_bv) | ('arr', t, [Val...], count_bv|None) | ('bits', t, [byte_bv...], count_bv|None)
                      | ('struct', t, [(name, Val)...]) | ('union', t, tag_bv, [(name, Val)...])
"""
from __future__ import annotations

import typing

import pydsdl
import z3

SAT = pydsdl.PrimitiveType.CastMode.SATURATED

ERR_ARRAY = 10
ERR_TAG = 11
ERR_DELIM = 12


def storage_bits(t: pydsdl.PrimitiveType) -> int:
    """width of the generated C storage type"""
    if isinstance(t, pydsdl.BooleanType):
        return 8
    if isinstance(t, pydsdl.FloatType):
        return 64 if t.bit_length == 64 else 32
    for w in (8, 16, 32, 64):
        if t.bit_length <= w:
            return w
    raise ValueError(t)


def inner(t: pydsdl.CompositeType) -> pydsdl.CompositeType:
    return t.inner_type if isinstance(t, pydsdl.DelimitedType) else t


# ---------------------------------------------------------------------------------------------- reading C objects
class Layout:
    """collects member designators in a first pass; resolves them to byte offsets from the compiler in the second"""

    def __init__(self) -> None:
        self.paths: typing.List[str] = []
        self.offsets: typing.Optional[typing.Dict[str, int]] = None

    def off(self, path: str) -> int:
        if self.offsets is None:
            if path not in self.paths:
                self.paths.append(path)
            return 0
        return self.offsets[path]


def c_read(t: pydsdl.SerializableType, path: str, lay: Layout, obj: typing.Sequence[typing.Any]) -> typing.Any:
    """Val tree of a generated C object whose bytes are `obj` (list of 8-bit terms / ints)"""
    def u(p: str, nbytes: int):
        o = lay.off(p)
        bs = [obj[o + i] if o + i < len(obj) else 0 for i in range(nbytes)]
        bs = [z3.BitVecVal(b, 8) if isinstance(b, int) else b for b in bs]
        return bs[0] if nbytes == 1 else z3.Concat(*reversed(bs))

    def j(a: str, b: str) -> str:
        return b if not a else a + "." + b

    if isinstance(t, pydsdl.PrimitiveType):
        return ("prim", t, u(path, storage_bits(t) // 8))
    if isinstance(t, pydsdl.ArrayType):
        var = isinstance(t, pydsdl.VariableLengthArrayType)
        cnt = u(path + ".count", 8) if var else None
        if isinstance(t.element_type, pydsdl.BooleanType):
            nb = (t.capacity + 7) // 8
            return ("bits", t, [u((f"{path}.bitpacked[{i}]" if var else f"{path}_bitpacked_[{i}]"), 1) for i in range(nb)], cnt)
        return ("arr", t, [c_read(t.element_type, (f"{path}.elements[{i}]" if var else f"{path}[{i}]"), lay, obj) for i in range(t.capacity)], cnt)
    if isinstance(t, pydsdl.CompositeType):
        it = inner(t)
        if isinstance(it, pydsdl.UnionType):
            return ("union", t, u(j(path, "_tag_"), 1), [(f.name, c_read(f.data_type, j(path, f.name), lay, obj)) for f in it.fields])
        return ("struct", t, [(f.name, c_read(f.data_type, j(path, f.name), lay, obj)) for f in it.fields_except_padding])
    raise TypeError(t)


def bool_preconditions(v: typing.Any) -> typing.List[typing.Any]:
    """`bool` storage bytes are 0 or 1 (anything else is already undefined behaviour to load in C)"""
    k = v[0]
    if k == "prim":
        return [z3.ULE(v[2], 1)] if isinstance(v[1], pydsdl.BooleanType) else []
    if k == "arr":
        return [c for e in v[2] for c in bool_preconditions(e)]
    if k == "bits":
        return []
    if k == "struct":
        return [c for _, e in v[2] for c in bool_preconditions(e)]
    return [c for _, e in v[3] for c in bool_preconditions(e)]


# ---------------------------------------------------------------------------------------------- choosing shapes
class Invalid(Exception):
    def __init__(self, code: int):
        self.code = code


class Chooser:
    def __init__(self, model: z3.ModelRef):
        self.m = model
        self.conds: typing.List[typing.Any] = []

    def choose(self, term: typing.Any, hi: int) -> typing.Optional[int]:
        """concrete value of `term` under the model; None if it exceeds hi (records `term > hi` instead of an equality)"""
        if isinstance(term, int):
            return term if term <= hi else None
        v = self.m.eval(term, model_completion=True).as_long()
        if v > hi:
            self.conds.append(z3.UGT(term, hi))
            return None
        self.conds.append(term == v)
        return v

    def cond(self) -> typing.Any:
        return z3.And(*self.conds) if self.conds else z3.BoolVal(True)


# ---------------------------------------------------------------------------------------------- cast-mode adjustment
def cast_adjust(t: pydsdl.PrimitiveType, st: typing.Any) -> typing.Any:
    """the `t.bit_length`-bit wire value of storage value `st` (floats handled by the caller)"""
    W, n = st.size(), t.bit_length
    if isinstance(t, pydsdl.BooleanType):
        return z3.Extract(0, 0, st)
    if n == W:
        return st
    low = z3.Extract(n - 1, 0, st)
    if t.cast_mode != SAT:
        return low
    if isinstance(t, pydsdl.UnsignedIntegerType):
        mx = (1 << n) - 1
        return z3.If(z3.UGT(st, mx), z3.BitVecVal(mx, n), low)
    lo, hi = -(1 << (n - 1)), (1 << (n - 1)) - 1
    return z3.If(st < lo, z3.BitVecVal(lo & ((1 << n) - 1), n), z3.If(st > hi, z3.BitVecVal(hi, n), low))


def f16_wire_ok(t: pydsdl.FloatType, x32: typing.Any, h16: typing.Any) -> typing.Any:
    """C14's relation: faithful (RTZ neighbour or its successor); saturated: finite values clamp to +-65504; truncated: overflow -> inf;
    inf -> inf; NaN -> NaN; sign preserved"""
    F32, F16 = z3.Float32(), z3.Float16()
    absb = x32 & 0x7FFFFFFF
    mag = h16 & 0x7FFF
    sgn_ok = z3.Extract(15, 15, h16) == z3.Extract(31, 31, x32)
    isnan = z3.UGT(absb, 0x7F800000)
    isinf = absb == 0x7F800000
    ax = z3.fpBVToFP(absb, F32)
    if t.cast_mode == SAT:
        big = z3.fpGT(ax, z3.FPVal(65504.0, F32))
        rtz = z3.fpToIEEEBV(z3.fpFPToFP(z3.RTZ(), ax, F16))
        fin = z3.If(big, mag == 0x7BFF, z3.Or(mag == rtz, z3.And(mag == rtz + 1, rtz != 0x7BFF)))
    else:
        rtz = z3.fpToIEEEBV(z3.fpFPToFP(z3.RTZ(), ax, F16))
        fin = z3.Or(mag == rtz, mag == rtz + 1)
    return z3.And(sgn_ok, z3.If(isnan, z3.UGT(mag, 0x7C00), z3.If(isinf, mag == 0x7C00, fin)))


def pyfloat_wire_ok(t: pydsdl.FloatType, d64: typing.Any, field: typing.Any) -> typing.Any:
    """Python target: a float field holds an IEEE binary64; the wire value must be a *faithful* conversion to the declared format:
    exactly representable values convert exactly, other finite values to one of the two neighbours (the neighbour beyond the largest
    finite value being infinity for truncated fields, never for saturated ones: those clamp), infinities and NaN-ness are preserved,
    the sign (also of zero) is preserved.  float64 fields carry the bit pattern."""
    n = t.bit_length
    srt = {16: z3.Float16(), 32: z3.Float32(), 64: z3.Float64()}[n]
    F64 = z3.Float64()
    y = z3.fpBVToFP(field, srt)
    if n == 64:
        return z3.If(z3.fpIsNaN(d64), z3.fpIsNaN(y), y == d64)
    mag = z3.Extract(n - 2, 0, field)
    sgn_ok = z3.Extract(n - 1, n - 1, field) == z3.Extract(63, 63, z3.fpToIEEEBV(d64))
    r = z3.fpFPToFP(z3.RTZ(), d64, srt)                       # towards zero: never overflows to infinity
    rmag = z3.Extract(n - 2, 0, z3.fpToIEEEBV(r))
    exact = z3.fpFPToFP(z3.RNE(), r, F64) == d64
    maxmag = z3.BitVecVal((((1 << (n - 1)) - 1) ^ ((1 << {16: 10, 32: 23}[n]) - 1)) - 1, n - 1)       # largest finite magnitude pattern
    infmag = maxmag + 1
    beyond = z3.fpGT(z3.fpAbs(d64), z3.fpFPToFP(z3.RNE(), z3.fpBVToFP(z3.Concat(z3.BitVecVal(0, 1), maxmag), srt), F64))
    if t.cast_mode == SAT:
        fin = z3.If(beyond, mag == maxmag, z3.If(exact, mag == rmag, z3.Or(mag == rmag, z3.And(mag == rmag + 1, rmag != maxmag))))
    else:
        fin = z3.If(exact, mag == rmag, z3.Or(mag == rmag, mag == rmag + 1))
    return z3.If(z3.fpIsNaN(d64), z3.fpIsNaN(y), z3.And(sgn_ok, z3.If(z3.fpIsInf(d64), mag == infmag, fin)))


def f32_wire(t: pydsdl.FloatType, st: typing.Any) -> typing.Any:
    """float32/float64 fields: the wire value is the bit pattern.  (float64 storage 'double' for float64, 'float' for float32:
    saturation is the identity on finite values of the same format.)"""
    return st


# ---------------------------------------------------------------------------------------------- serialization spec
class Stream:
    """ordered chunks at concrete bit offsets: ('x', off, width, term) exact | ('h', off, 16, x32, type) float16 relation"""

    def __init__(self) -> None:
        self.pos = 0
        self.chunks: typing.List[tuple] = []

    def put(self, term: typing.Any, width: int) -> None:
        if width:
            self.chunks.append(("x", self.pos, width, term))
            self.pos += width

    def put_f16(self, t: pydsdl.FloatType, x32: typing.Any) -> None:
        self.chunks.append(("h", self.pos, 16, x32, t))
        self.pos += 16

    def pad_to(self, align: int) -> None:
        r = (-self.pos) % align
        if r:
            self.put(z3.BitVecVal(0, r), r)

    def splice(self, sub: "Stream") -> None:
        base = self.pos
        for c in sub.chunks:
            self.chunks.append((c[0], c[1] + base) + tuple(c[2:]))
        self.pos += sub.pos


def ser(v: typing.Any, s: Stream, ch: Chooser) -> None:
    """append the specified representation of value tree v; raises Invalid for values with no representation"""
    k, t = v[0], v[1]
    if k == "prim":
        if isinstance(v[2], tuple):                       # Python target: ('fbits', pattern) array element | ('pyfloat', Float64 term) scalar
            if v[2][0] == "fbits":
                s.put(v[2][1], t.bit_length)
            else:
                s.chunks.append(("pf", s.pos, t.bit_length, v[2][1], t))
                s.pos += t.bit_length
        elif isinstance(t, pydsdl.FloatType) and t.bit_length == 16:
            s.put_f16(t, v[2])
        elif isinstance(t, pydsdl.FloatType):
            s.put(f32_wire(t, v[2]), t.bit_length)
        else:
            s.put(cast_adjust(t, v[2]), t.bit_length)
        return
    if k in ("arr", "bits"):
        s.pad_to(t.alignment_requirement)
        n = t.capacity
        if v[3] is not None:
            n = ch.choose(v[3], t.capacity)
            if n is None:
                raise Invalid(ERR_ARRAY)
            lw = t.length_field_type.bit_length
            s.put(z3.BitVecVal(n, lw), lw)
        if k == "bits":
            for i in range(n):
                s.put(z3.Extract(i % 8, i % 8, v[2][i // 8]), 1)
        else:
            for i in range(n):
                s.pad_to(t.element_type.alignment_requirement)
                ser(v[2][i], s, ch)
        return
    # composites
    s.pad_to(t.alignment_requirement)
    if isinstance(t, pydsdl.DelimitedType):
        sub = Stream()
        _ser_body(v, inner(t), sub, ch)
        assert sub.pos % 8 == 0
        hw = t.delimiter_header_type.bit_length
        s.put(z3.BitVecVal(sub.pos // 8, hw), hw)
        s.splice(sub)
    else:
        sub = Stream()
        _ser_body(v, t, sub, ch)
        s.splice(sub)


def _ser_body(v: typing.Any, it: pydsdl.CompositeType, s: Stream, ch: Chooser) -> None:
    if v[0] == "union":
        n = ch.choose(v[2], len(it.fields) - 1)
        if n is None:
            raise Invalid(ERR_TAG)
        tw = it.tag_field_type.bit_length
        s.put(z3.BitVecVal(n, tw), tw)
        f = it.fields[n]
        s.pad_to(f.data_type.alignment_requirement)
        ser(v[3][n][1], s, ch)
    else:
        vals = dict(v[2])
        for f in it.fields:
            s.pad_to(f.data_type.alignment_requirement)
            if isinstance(f, pydsdl.PaddingField):
                s.put(z3.BitVecVal(0, f.data_type.bit_length), f.data_type.bit_length)
            else:
                ser(vals[f.name], s, ch)
    s.pad_to(it.alignment_requirement)


def ser_top(t: pydsdl.CompositeType, v: typing.Any, ch: Chooser) -> Stream:
    """top-level objects carry no delimiter header"""
    s = Stream()
    _ser_body(v, inner(t), s, ch)
    return s


def stream_matches(s: Stream, buf: typing.Sequence[typing.Any], as_list: bool = False) -> typing.Any:
    """z3 Bool: the first ceil(s.pos/8) bytes of buf carry exactly the specified bits (as_list: the conjuncts, one per chunk)"""
    nbytes = (s.pos + 7) // 8
    if nbytes == 0:
        return [] if as_list else z3.BoolVal(True)
    bs = [z3.BitVecVal(b, 8) if isinstance(b, int) else b for b in buf[:nbytes]]
    whole = bs[0] if nbytes == 1 else z3.Concat(*reversed(bs))
    conj = []
    for c in s.chunks:
        field = z3.Extract(c[1] + c[2] - 1, c[1], whole)
        if c[0] == "x":
            conj.append(field == c[3])
        elif c[0] == "pf":
            conj.append(pyfloat_wire_ok(c[4], c[3], field))
        else:
            conj.append(f16_wire_ok(c[4], c[3], field))
    if s.pos % 8:
        conj.append(z3.Extract(8 * nbytes - 1, s.pos, whole) == 0)
    if as_list:
        return conj
    return z3.And(*conj) if conj else z3.BoolVal(True)


# ---------------------------------------------------------------------------------------------- deserialization spec
class BitReader:
    def __init__(self, buf: typing.Sequence[typing.Any], base_bit: int = 0, limit_bits: typing.Optional[int] = None):
        """buf: supplied bytes; reads beyond min(len(buf)*8, limit) yield zeros (implicit zero extension)"""
        self.buf = [z3.BitVecVal(b, 8) if isinstance(b, int) else b for b in buf]
        self.pos = base_bit
        self.limit = 8 * len(buf) if limit_bits is None else min(limit_bits, 8 * len(buf))

    def read(self, width: int) -> typing.Any:
        bits = []
        for i in range(width):
            p = self.pos + i
            if p < self.limit:
                bits.append(z3.Extract(p % 8, p % 8, self.buf[p // 8]))
            else:
                bits.append(z3.BitVecVal(0, 1))
        self.pos += width
        if width == 0:
            return None
        return z3.simplify(z3.Concat(*reversed(bits))) if width > 1 else bits[0]

    def align(self, a: int) -> None:
        self.pos += (-self.pos) % a


def des(t: pydsdl.SerializableType, r: BitReader, ch: Chooser) -> typing.Any:
    """expected decoded value tree ('prim' carries the expected *storage* value; float16 carries ('f16', half_bits))"""
    if isinstance(t, pydsdl.PrimitiveType):
        w = r.read(t.bit_length)
        W = storage_bits(t)
        if isinstance(t, pydsdl.BooleanType):
            return ("prim", t, z3.ZeroExt(7, w))
        if isinstance(t, pydsdl.FloatType):
            return ("prim", t, ("f16", w)) if t.bit_length == 16 else ("prim", t, w)
        if isinstance(t, pydsdl.SignedIntegerType):
            return ("prim", t, z3.SignExt(W - t.bit_length, w) if W > t.bit_length else w)
        return ("prim", t, z3.ZeroExt(W - t.bit_length, w) if W > t.bit_length else w)
    if isinstance(t, pydsdl.ArrayType):
        r.align(t.alignment_requirement)
        n = t.capacity
        cnt = None
        if isinstance(t, pydsdl.VariableLengthArrayType):
            lw = t.length_field_type.bit_length
            n = ch.choose(r.read(lw), t.capacity)
            if n is None:
                raise Invalid(ERR_ARRAY)
            cnt = n
        if isinstance(t.element_type, pydsdl.BooleanType):
            bits = [r.read(1) for _ in range(n)]
            return ("bits", t, bits, cnt)
        els = []
        for _ in range(n):
            r.align(t.element_type.alignment_requirement)
            els.append(des(t.element_type, r, ch))
        return ("arr", t, els, cnt)
    if isinstance(t, pydsdl.CompositeType):
        r.align(t.alignment_requirement)
        if isinstance(t, pydsdl.DelimitedType):
            hw = t.delimiter_header_type.bit_length
            start_avail = max(0, r.limit - (r.pos + hw)) // 8          # bytes remaining after the header
            h = ch.choose(r.read(hw), start_avail)
            if h is None:
                raise Invalid(ERR_DELIM)
            sub = BitReader(r.buf, r.pos, min(r.limit, r.pos + 8 * h))
            sub.buf = r.buf
            v = _des_body(t, inner(t), sub, ch)
            r.pos += 8 * h
            return v
        return _des_body(t, t, r, ch)
    raise TypeError(t)


def _des_body(t: pydsdl.CompositeType, it: pydsdl.CompositeType, r: BitReader, ch: Chooser) -> typing.Any:
    if isinstance(it, pydsdl.UnionType):
        tw = it.tag_field_type.bit_length
        n = ch.choose(r.read(tw), len(it.fields) - 1)
        if n is None:
            raise Invalid(ERR_TAG)
        f = it.fields[n]
        r.align(f.data_type.alignment_requirement)
        v = ("union", t, n, [(f.name, des(f.data_type, r, ch))])
    else:
        out = []
        for f in it.fields:
            r.align(f.data_type.alignment_requirement)
            if isinstance(f, pydsdl.PaddingField):
                r.read(f.data_type.bit_length)
            else:
                out.append((f.name, des(f.data_type, r, ch)))
        v = ("struct", t, out)
    r.align(it.alignment_requirement)
    return v


def des_top(t: pydsdl.CompositeType, buf: typing.Sequence[typing.Any], ch: Chooser) -> typing.Tuple[typing.Any, int]:
    r = BitReader(buf)
    v = _des_body(t, inner(t), r, ch)
    return v, r.pos


def f16_unpack_ok(h16: typing.Any, x32: typing.Any) -> typing.Any:
    F32, F16 = z3.Float32(), z3.Float16()
    isnan = z3.UGT(h16 & 0x7FFF, 0x7C00)
    exact = z3.fpToIEEEBV(z3.fpFPToFP(z3.RNE(), z3.fpBVToFP(h16, F16), F32))
    return z3.If(isnan, z3.UGT(x32 & 0x7FFFFFFF, 0x7F800000), x32 == exact)


def match_decoded(exp: typing.Any, act: typing.Any) -> typing.Any:
    """z3 Bool: every *meaningful* field of the actual object (Val from c_read) equals the expected decode"""
    k = exp[0]
    if k == "prim":
        e, a = exp[2], act[2]
        if isinstance(e, tuple):
            return f16_unpack_ok(e[1], a)
        return a == e
    if k == "arr":
        conj = [match_decoded(e, a) for e, a in zip(exp[2], act[2])]
        if exp[3] is not None:
            conj.append(act[3] == exp[3])
        return z3.And(*conj) if conj else z3.BoolVal(True)
    if k == "bits":
        conj = [z3.Extract(i % 8, i % 8, act[2][i // 8]) == b for i, b in enumerate(exp[2])]
        if exp[3] is not None:
            conj.append(act[3] == exp[3])
        return z3.And(*conj) if conj else z3.BoolVal(True)
    if k == "struct":
        am = dict(act[2])
        conj = [match_decoded(e, am[n]) for n, e in exp[2]]
        return z3.And(*conj) if conj else z3.BoolVal(True)
    # union: tag and the active option only
    n = exp[2]
    name, e = exp[3][0]
    return z3.And(act[2] == n, match_decoded(e, dict(act[3])[name]))


def meaningful_leaves(exp: typing.Any, act: typing.Any) -> typing.List[typing.Any]:
    """the terms of the actual object that carry meaning for the decoded shape `exp` (same traversal as match_decoded)"""
    k = exp[0]
    if k == "prim":
        return [act[2]]
    if k == "arr":
        out = [x for e, a in zip(exp[2], act[2]) for x in meaningful_leaves(e, a)]
        return out + ([act[3]] if exp[3] is not None else [])
    if k == "bits":
        out = [z3.Extract(i % 8, i % 8, act[2][i // 8]) for i, _ in enumerate(exp[2])]
        return out + ([act[3]] if exp[3] is not None else [])
    if k == "struct":
        am = dict(act[2])
        return [x for n, e in exp[2] for x in meaningful_leaves(e, am[n])]
    name, e = exp[3][0]
    return [act[2]] + meaningful_leaves(e, dict(act[3])[name])


def validity_preconditions(v: typing.Any) -> typing.List[typing.Any]:
    """every count within capacity and every union tag valid (objects that a C++ / Python value can actually be)"""
    k, t = v[0], v[1]
    if k == "prim":
        return []
    if k in ("arr", "bits"):
        out = [z3.ULE(v[3], t.capacity)] if v[3] is not None else []
        if k == "arr":
            out += [c for e in v[2] for c in validity_preconditions(e)]
        return out
    if k == "struct":
        return [c for _, e in v[2] for c in validity_preconditions(e)]
    return [z3.ULT(v[2], len(v[3]))] + [c for _, e in v[3] for c in validity_preconditions(e)]
