#!/bin/bash
# Idempotent, offline: /verif/.venv = venv on /venv's interpreter, sees /venv's site-packages (pydsdl, yaml, ...)
# and /repo/src (the *current working tree* of nunavut, never an installed copy), plus crosshair-tool, z3-solver,
# numpy from the offline wheelhouse.  Safe under concurrent invocation (flock).
set -euo pipefail
VERIF="$(cd "$(dirname "$0")/.." && pwd)"
VENV="$VERIF/.venv"
STAMP="$VENV/.ok3"
exec 9>"$VERIF/.venv.lock"
flock 9
if [ -f "$STAMP" ] && "$VENV/bin/python" -c 'import crosshair, z3, numpy, pydsdl, nunavut' >/dev/null 2>&1; then
  exit 0
fi
rm -rf "$VENV"
/venv/bin/python -m venv "$VENV"
SP="$("$VENV/bin/python" -c 'import sysconfig; print(sysconfig.get_paths()["purelib"])')"
# order matters: /repo/src first so that the working tree shadows any installed nunavut
printf '%s\n' "/repo/src" "import site; site.addsitedir('/venv/lib/python3.12/site-packages')" > "$SP/_verif_overlay.pth"
PIP_NO_INDEX=1 "$VENV/bin/pip" install -q --no-index --find-links /opt/veriftools/wheels crosshair-tool z3-solver numpy >/dev/null
"$VENV/bin/python" - <<'PY'
import crosshair, z3, numpy, pydsdl, nunavut, os
assert os.path.realpath(nunavut.__file__).startswith("/repo/src/"), nunavut.__file__
PY
touch "$STAMP"
