#!/usr/bin/env python3
"""Prints the markdown table of seeded changes (seeded/*/meta.json) used in DESIGN.md section 10.9."""
import json, pathlib
rows = []
for d in sorted(pathlib.Path("/verif/seeded").iterdir()):
    m = json.loads((d / "meta.json").read_text())
    rows.append((d.name, m["breaks"], m["needs_to_manifest"].replace("|", "/"), m["detected_by"].replace("|", "/")))
print("| seeded change | property | needs, to manifest | result |")
print("|---|---|---|---|")
for r in rows:
    print("| `seeded/%s` | %s | %s | %s |" % r)
