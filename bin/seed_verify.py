#!/usr/bin/env python3
"""seed_verify.py <patch.diff> <demo.py> [--check ID[,ID..]] [--tier quick]
1. in a fresh scratch worktree of /repo HEAD: demo passes; apply patch; demo fails; pinned test suite still passes the baseline set
2. (optional) apply the patch to /repo, run the named checks, print their exit codes, and undo the patch straight afterwards.
Never commits anything to /repo."""
import json
import os
import subprocess
import sys
import tempfile
import xml.etree.ElementTree as ET

PYV = "/venv/bin/python"
DEMO_PY = os.environ.get("SEED_DEMO_PY", PYV)     # demos that execute generated Python need numpy: SEED_DEMO_PY=/verif/.venv/bin/python


def sh(cmd, **kw):
    return subprocess.run(cmd, shell=isinstance(cmd, str), stdout=subprocess.PIPE, stderr=subprocess.STDOUT, text=True, **kw)


def suite(tree):
    out = tempfile.mkdtemp()
    env = dict(os.environ, PYTHONPATH=f"{tree}/src")
    env.pop("NUNAVUT_VERIF", None)
    sh(f"cd {tree} && {PYV} -m pytest -q -p no:cacheprovider --timeout=900 --continue-on-collection-errors --junitxml={out}/j.xml", env=env)
    base = set(json.load(open("/root/.vp/BASELINE.json"))["stable_pass"])
    passed = set()
    for tc in ET.parse(f"{out}/j.xml").getroot().iter("testcase"):
        if not any(ch.tag in ("failure", "error", "skipped") for ch in tc):
            passed.add(f"{tc.get('classname')}::{tc.get('name')}")
    sh(f"rm -rf {out}")
    return sorted(base - passed)


def main():
    patch, demo = os.path.abspath(sys.argv[1]), os.path.abspath(sys.argv[2])
    checks = []
    tier = "quick"
    if "--check" in sys.argv:
        checks = sys.argv[sys.argv.index("--check") + 1].split(",")
    if "--tier" in sys.argv:
        tier = sys.argv[sys.argv.index("--tier") + 1]
    wt = tempfile.mkdtemp(prefix="seedwt_")
    os.rmdir(wt)
    r = sh(f"git -C /repo worktree add -q --detach {wt} HEAD")
    ok = True
    try:
        env = dict(os.environ, PYTHONPATH=f"{wt}/src")
        d0 = sh([DEMO_PY, demo], env=env, cwd=wt)
        print(f"[seed] demo on unchanged tree: rc={d0.returncode} {d0.stdout.strip()[-120:]!r}")
        a = sh(f"git -C {wt} apply {patch}")
        if a.returncode != 0:
            print("[seed] PATCH DOES NOT APPLY:", a.stdout[-300:])
            return 2
        d1 = sh([DEMO_PY, demo], env=env, cwd=wt)
        print(f"[seed] demo with patch:        rc={d1.returncode} {d1.stdout.strip()[-200:]!r}")
        missing = suite(wt)
        print(f"[seed] test suite with patch: baseline tests no longer passing = {len(missing)} {missing[:3]}")
        ok = d0.returncode == 0 and d1.returncode != 0 and not missing
        print("[seed] CONFIRMED" if ok else "[seed] NOT CONFIRMED")
    finally:
        sh(f"git -C /repo worktree remove --force {wt}")
    if checks and ok:
        st = sh("git -C /repo status --porcelain --untracked-files=no").stdout.strip()
        if st:
            print("[seed] /repo has uncommitted changes; refusing to apply", st)
            return 2
        a = sh(f"git -C /repo apply {patch}")
        try:
            for c in checks:
                r = sh(f"cd /verif && ./check {c} {tier}")
                lines = [l for l in r.stdout.splitlines() if l.startswith(("VIOLATION", "KNOWN-FINDING", "INCONCLUSIVE", "[" + c))]
                print(f"[seed] check {c} {tier}: exit={r.returncode}")
                for l in lines[:8]:
                    print("        " + l[:300])
        finally:
            sh("git -C /repo checkout -- .")
            print("[seed] /repo restored:", sh("git -C /repo status --porcelain --untracked-files=no").stdout.strip() or "clean")
    return 0 if ok else 1


if __name__ == "__main__":
    sys.exit(main())
