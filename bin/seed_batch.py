#!/usr/bin/env python3
"""seed_batch.py [--par N] [--jobs J] [--tier quick] <name>=<patch>:<demo>:<check,check..> ...
Confirms candidate seeded changes and runs checks against them, each in its OWN scratch worktree of /repo HEAD (so several can run in
parallel and /repo itself is never touched):
  1. demo exits 0 on the clean worktree; 2. patch applies; 3. demo exits non-zero with the patch; 4. the pinned suite keeps every baseline
  test passing; 5. every named check runs with VERIF_NUNAVUT_SRC=<worktree>/src (and private evidence/replay dirs).
Results: /tmp/seedrun/results/<name>.json ; logs: /tmp/seedrun/<name>.log .  The worktree is removed at the end."""
import concurrent.futures
import json
import os
import pathlib
import subprocess
import sys

ROOT = pathlib.Path("/tmp/seedrun")
DEMO_PY = "/tmp/seed_tools/pyenv/bin/python"


def sh(cmd, **kw):
    return subprocess.run(cmd, shell=True, stdout=subprocess.PIPE, stderr=subprocess.STDOUT, text=True, **kw)


def one(spec, jobs, tier):
    name, rest = spec.split("=", 1)
    patch, demo, checks = rest.split(":")
    checks = [c for c in checks.split(",") if c]
    wt = ROOT / "wt" / name
    run = ROOT / "run" / name
    sh(f"rm -rf {run}; mkdir -p {run}/ev {run}/rp {ROOT}/results {ROOT}/results2 {ROOT}/results3 {ROOT}/wt")
    sh(f"git -C /repo worktree remove --force {wt}; rm -rf {wt}")
    res = dict(name=name, patch=patch, demo=demo, checks={})
    log = open(ROOT / f"{name}.log", "w")
    try:
        r = sh(f"git -C /repo worktree add -q --detach {wt} HEAD")
        env = dict(os.environ, PYTHONPATH=f"{wt}/src")
        env.pop("NUNAVUT_VERIF", None)
        d0 = sh(f"{DEMO_PY} {demo}", env=env, cwd=str(wt))
        res["demo_clean_rc"] = d0.returncode
        a = sh(f"git -C {wt} apply {patch}")
        res["applies"] = a.returncode == 0
        if a.returncode != 0:
            res["apply_error"] = a.stdout[-400:]
            return res
        d1 = sh(f"{DEMO_PY} {demo}", env=env, cwd=str(wt))
        res["demo_patched_rc"] = d1.returncode
        res["demo_patched_tail"] = d1.stdout.strip()[-300:]
        s = sh(f"python3 /tmp/seed_tools/suite.py {wt}")
        res["suite_lost"] = [l for l in s.stdout.splitlines() if "LOST" in l][:5]
        res["suite_rc"] = s.returncode
        res["confirmed"] = d0.returncode == 0 and d1.returncode != 0 and s.returncode == 0
        log.write(f"demo clean rc={d0.returncode}\n{d0.stdout[-1500:]}\n\ndemo patched rc={d1.returncode}\n{d1.stdout[-3000:]}\n\nsuite: {s.stdout[-800:]}\n")
        if res["confirmed"]:
            for c in checks:
                cenv = dict(os.environ, VERIF_NUNAVUT_SRC=f"{wt}/src", VERIF_EVIDENCE_DIR=f"{run}/ev", VERIF_REPLAY_DIR=f"{run}/rp", VERIF_JOBS=str(jobs))
                r = sh(f"cd /verif && ./check {c} {tier}", env=cenv)
                lines = [l[:400] for l in r.stdout.splitlines() if l.startswith(("VIOLATION", "  what", "KNOWN-FINDING", "INCONCLUSIVE", "[" + c))]
                res["checks"][c] = dict(exit=r.returncode, lines=lines[:10], nviol=sum(1 for l in r.stdout.splitlines() if l.startswith("VIOLATION")))
                log.write(f"\n===== check {c} {tier}: exit={r.returncode}\n{r.stdout[-6000:]}\n")
                log.flush()
    finally:
        sh(f"git -C /repo worktree remove --force {wt}; rm -rf {wt} {run}/rp")
        (ROOT / os.environ.get("SEED_RESULTS", "results") / f"{name}.json").write_text(json.dumps(res, indent=1))
        log.close()
    return res


def main():
    args = sys.argv[1:]
    par, jobs, tier = 4, 4, "quick"
    while args and args[0].startswith("--"):
        k = args.pop(0)
        v = args.pop(0)
        if k == "--par":
            par = int(v)
        elif k == "--jobs":
            jobs = int(v)
        elif k == "--tier":
            tier = v
    with concurrent.futures.ThreadPoolExecutor(par) as ex:
        for res in ex.map(lambda s: one(s, jobs, tier), args):
            ck = {c: v["exit"] for c, v in res.get("checks", {}).items()}
            print(f"[seed] {res['name']}: applies={res.get('applies')} clean={res.get('demo_clean_rc')} patched={res.get('demo_patched_rc')} "
                  f"suite_lost={len(res.get('suite_lost', []))} confirmed={res.get('confirmed')} checks={ck}", flush=True)


if __name__ == "__main__":
    main()
