#!/usr/bin/env python3
"""Regenerates the two generated tables of DESIGN.md in place: section 10.1 (as-built status with measured quick-tier cost, read from the
evidence files) and section 10.9 (seeded changes, read from seeded/*/meta.json).  Text between the marker comments is replaced."""
import json
import pathlib
import re

V = pathlib.Path(__file__).resolve().parent.parent

AS_BUILT = {
    "C01": ("E1 llsym: C (-O1 IR) and C++14 (mirror harness); **E4 pysym: Python**", "Python target landed (round 2); capacity-255 arrays (serialization only); corpus families added after missed seeds"),
    "C02": ("E1 llsym: C and C++14; **E4 pysym: Python**", "Python landed and found two defects (fixed); bounded-domain splitting + `concretize` (§10.2)"),
    "C03": ("E1 chain + cross-option + C↔C++; **E4: Python round trip**; E3 lemma C↔Python float16", "Python round trip in one symbolic run per shape; C↔Python float16 packing decided over all 2^32 values (agree off ties; ties = listed finding)"),
    "C04": ("E1 on -O0+mem2reg IR (C), -O1 IR + heap discipline (C++)", "prior-state clause re-stated (§10.4); A→B fallback when the -O0 path count explodes; capacity-255 serializers"),
    "C05": ("E1 (-O1 IR, memory obligations) + ground metadata (C **and Python**) + Int lemma", "Python class attributes and constants (ground); pure-aggregate corpus types"),
    "C06": ("—", "not applicable (unchanged)"),
    "C07": ("E2 non-interference", "source-path stub with the lexical pathlib API and a symbolic directory NAME; Namespace stand-in under CrossHair (§10.5)"),
    "C08": ("E2 + concrete co-simulation", "input-listing clause only by concrete co-simulation (§10.6); incomplete user template directory scenario added"),
    "C09": ("E2", "+ whole reserved words (ISO C11 / C++17 keywords, Python keywords and builtins) alone and followed by an underscore"),
    "C10": ("E2 inductive step + subset/order over real C templates (+ native smoke for cache state)", "+ text filters keep no memory (C++ block comments, every built-in style)"),
    "C11": ("E2 finite split", "+ prefix-named sibling namespace, children enumerated in both orders, stropping disabled by configuration"),
    "C12": ("E2 inductive step on FakeFS", "prior CONTENT symbolic too (unrelated / identical / CRLF / CR variants of what is about to be written)"),
    "C13": ("E2 differential", "CLI condition covers every documented flag value incl. the one equal to the built-in default"),
    "C14": ("E1 on C support (-O0 IR) and C++ bitspan (-O1 IR) + E3 FP lemmas; **E4: Python Serializer/Deserializer**", "Python primitives landed: ≈ 4 500 (primitive, offset, length, size) cases"),
    "C15": ("E2", "as designed"),
    "C16": ("E2", "availability model reduced to be confirmable (§10.7)"),
    "C17": ("E3 finite-domain + concrete compiler co-simulation", "+ translation units mixing type headers of two runs (real gcc/g++)"),
    "C18": ("E2 (scalars incl. numpy scalars, unions) + **E4 pysym (arrays, built-in round trip)** + ground `_MODEL_`", "array and `to_builtin` clauses landed on the codec corpus"),
    "C19": ("E2 + one E3 lemma", "+ overlay-environment histories in the bundled-vs-upstream differential"),
    "C20": ("E2 through the real html templates + concrete link resolution", "+ namespace documentation, whole-token documentation (character references), link clause by a concrete run (one fix, one finding)"),
}


def as_built() -> str:
    rows = ["| id  | engine as built | quick tier, measured (16 cores) | notes (what differs from the design / what round 2 added) |", "|-----|-----------------|----------------------------------|---------------------------|"]
    for i in range(1, 21):
        pid = f"C{i:02d}"
        eng, note = AS_BUILT[pid]
        meas = "—"
        p = V / "evidence" / f"{pid}.json"
        if p.exists():
            e = json.loads(p.read_text())
            q = e["coverage"].get("queries", {})
            meas = f"{e['wall_s'] / 60:.1f} min, {q.get('total', e['coverage'].get('evaluations'))} queries" if e.get("tier") == "quick" else f"(last run: {e.get('tier')})"
        rows.append(f"| {pid} | {eng} | {meas} | {note} |")
    return "\n".join(rows)


def seeds() -> str:
    rows = ["| seeded change | property | needs, to manifest | result |", "|---|---|---|---|"]
    for d in sorted((V / "seeded").iterdir()):
        mp = d / "meta.json"
        if not mp.exists():
            continue
        m = json.loads(mp.read_text())
        rows.append("| `seeded/%s` | %s | %s | %s |" % (d.name, m["breaks"], m["needs_to_manifest"].replace("|", "/"), m["detected_by"].replace("|", "/")))
    return "\n".join(rows)


def main() -> None:
    p = V / "DESIGN.md"
    s = p.read_text()
    for tag, body in (("AS_BUILT", as_built()), ("SEED_TABLE", seeds())):
        b, e = f"<!-- {tag}_BEGIN -->", f"<!-- {tag}_END -->"
        assert b in s and e in s, tag
        s = s[: s.index(b) + len(b)] + "\n" + body + "\n" + s[s.index(e):]
    p.write_text(s)
    print("DESIGN.md tables regenerated")


if __name__ == "__main__":
    main()
