#!/bin/bash
# Runs every registered quick command once, sequentially, on /repo's current tree; prints id, exit code, wall seconds.
cd "$(dirname "$0")/.."
mkdir -p scratch/logs
for id in ${@:-C01 C02 C03 C04 C05 C07 C08 C09 C10 C11 C12 C13 C14 C15 C16 C17 C18 C19 C20}; do
  t0=$(date +%s)
  ./check $id quick > scratch/logs/$id.quick.log 2>&1
  rc=$?
  echo "$id exit=$rc wall=$(( $(date +%s) - t0 ))s  $(tail -1 scratch/logs/$id.quick.log | cut -c1-160)"
done
