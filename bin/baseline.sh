#!/bin/bash
# Runs the repository's pinned test suite (guard variable unset) and compares the passing set with BASELINE.json.
# exit 0 iff every test in BASELINE.stable_pass passes.
unset NUNAVUT_VERIF
OUT="$(mktemp -d)"; trap 'rm -rf "$OUT"' EXIT
cd /repo && /venv/bin/python -m pytest -ra -q -p no:cacheprovider --timeout=900 --continue-on-collection-errors --junitxml="$OUT/j.xml" >"$OUT/log" 2>&1
tail -1 "$OUT/log"
/venv/bin/python - "$OUT/j.xml" <<'PY'
import json, sys, xml.etree.ElementTree as ET
base = set(json.load(open("/root/.vp/BASELINE.json"))["stable_pass"])
passed = set()
for tc in ET.parse(sys.argv[1]).getroot().iter("testcase"):
    if not any(ch.tag in ("failure", "error", "skipped") for ch in tc):
        passed.add(f"{tc.get('classname')}::{tc.get('name')}")
missing = sorted(base - passed)
print(f"baseline stable_pass={len(base)} passing_now={len(passed)} missing={len(missing)}")
for m in missing[:20]: print("  MISSING", m)
sys.exit(1 if missing else 0)
PY
