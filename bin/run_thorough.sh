#!/bin/bash
# Runs every thorough command once, end to end, sequentially; logs wall time and exit code per check (used to size the thorough tier).
cd "$(dirname "$0")/.."
mkdir -p /tmp/thorough
for c in ${@:-C17 C18 C08 C05 C13 C19 C12 C20 C16 C07 C10 C15 C01 C14 C04 C09 C11 C03 C02}; do
  s=$(date +%s); ./check $c thorough > /tmp/thorough/$c.log 2>&1; rc=$?; e=$(date +%s)
  echo "$c exit=$rc wall=$((e-s))s $(grep "^\[$c" /tmp/thorough/$c.log | tail -1 | cut -c1-160)" | tee -a /tmp/thorough/SUMMARY
done
