#!/usr/bin/env python3
"""Regenerates /verif/MANIFEST.json from the table below (kept as code so the file is always schema-valid)."""
import json
import pathlib

VERIF = pathlib.Path(__file__).resolve().parent.parent
ALL = [f"C{i:02d}" for i in range(1, 21)]

E2 = "xh (CrossHair 0.0.110 + z3 over nunavut's own Python)"
E1 = "llsym (own bounded symbolic executor for clang-14 LLVM IR, z3 bit-vectors/FP)"

CHECKS = {
    "C01": dict(
        engine=E1, category="other", design_ref="DESIGN.md sections 2 (E1), 3, 4, 5 C01",
        technique="bounded symbolic execution of the LLVM IR of each generated C serializer (own executor llsym + z3 bit-vectors/FP): all object bytes "
                  "and prior buffer bytes symbolic; per path and value shape one query against a reference model of DSDL serialization; native replay",
        text="For every type of a finite corpus (one small type per template feature) and 2 (thorough: 4) option sets: for EVERY object content "
             "(padding, counts, tags, out-of-range storage values included) and every prior buffer content the generated serializer returns the "
             "specified size and exactly the specified bytes (void/padding zero whatever the buffer held), and rejects values that have no representation. "
             "The quantifier over values is the solver's; the quantifier over types is an enumerated corpus.",
        note="Trusted: clang 14 lowering (-O1 IR, x86-64), z3, the llsym interpreter (co-simulated in C14), llsym/dsdlspec.py, pydsdl. bool storage in {0,1}. "
             "C target only: C++ and Python executors are staged and reported as not covered. Types outside the corpus are outside."),
    "C02": dict(
        engine=E1, category="other", design_ref="DESIGN.md sections 2 (E1), 4, 5 C02",
        technique="bounded symbolic execution of the LLVM IR of each generated C deserializer on an arbitrary L-byte buffer (all bytes symbolic, "
                  "bounded-domain splitting on length prefixes/tags/delimiter headers); per path and wire shape one z3 query against the reference decode",
        text="For every corpus type, option set and buffer length L in the stated set (thorough: every L up to max(extent,max)+2) and EVERY byte string of "
             "that length: return code, consumed size (never more than supplied) and every meaningful decoded field equal the reference decode of the "
             "zero-extended buffer; error codes exactly when the representation is invalid.",
        note="Trusted as C01. Arbitrary buffers (not only truncated encodings) are covered within L; longer buffers and other types are outside. C target only."),
    "C04": dict(
        engine=E1, category="other", design_ref="DESIGN.md section 5 C04",
        technique="symbolic execution of -O0+mem2reg IR with interpreter obligations (bounds of exactly-sized objects, uninitialised reads, shifts, nsw "
                  "overflow, memcpy overlap, const writes, reached asserts); prior-state independence by syntactic non-interference, else a two-copy z3 query",
        text="For every corpus type: serialization with NO validity assumption on counts/tags and buffers of size 0..max+2, deserialization of arbitrary "
             "buffers into an arbitrary prior destination state, and the documented NULL/size-0 calls: no obligation fails on any path, every path ends in a "
             "documented code with size <= supplied, and path/return code/consumed size/meaningful fields do not depend on the destination's prior bytes.",
        note="Trusted: clang 14, z3, llsym memory model (objects are exactly sized; pointers are (object, offset)). Where -O0 IR exceeds its budget "
             "(float16 saturation inside arrays) the run falls back to -O1 IR with memory obligations only and says so. GEP excursions never dereferenced are "
             "notes. C only; C++ heap discipline staged."),
    "C05": dict(
        engine=E1, category="other", design_ref="DESIGN.md section 5 C05",
        technique="symbolic execution (llsym/z3) of serializers with exactly-sized buffers of every size up to the advertised one; unbounded-integer z3 lemma "
                  "for bits->bytes translated from the function's AST; ground comparison of exported macros with the pydsdl model",
        text="Symbolic: with a buffer of exactly the advertised size no access leaves the buffer and rc==0 implies size <= advertised <= extent, for every "
             "value; with any smaller buffer every path returns buffer-too-small and writes nothing outside. Ground (labelled as such): every exported "
             "macro (extent, buffer size, port-ID incl. 0 and maxima, names, capacities, option count, constants incl. extreme ints and floats within one "
             "ulp of the declared type) equals the DSDL definition.",
        note="The metadata part is evaluation, not a solver verdict over inputs. Trusted: clang 14, z3, llsym, pydsdl. C target only."),
    "C14": dict(
        engine=E1, category="other", design_ref="DESIGN.md section 5 C14",
        technique="symbolic execution (llsym/z3) of every C support primitive on -O0 IR: bit offsets/lengths/sizes iterated over the whole stated range, all "
                  "buffer contents and values symbolic, exactly-sized guard objects; float16 lemmas over IR-extracted terms for all 2^32 / 2^16 inputs",
        text="Per (primitive, shape) and for EVERY buffer content and value: exactly the addressed bits change, bits past the end read as zero, sign "
             "extension, too-small buffers are refused untouched, no out-of-bounds access; half packing is faithful, monotone, inf/NaN preserving and "
             "round-trips all 65536 halves (z3 FP theory, all inputs at once). Interpreter co-simulated against the native binary every run.",
        note="Shapes are enumerated (symbolic shapes do not terminate), data is solver-quantified. C support library for target_endianness any/little, asserts "
             "on/off. C++ bitspan and Python primitives are staged: not covered. Overlapping copies with a partial last byte are outside the documented contract."),
    "C17": dict(
        engine="smt (direct z3 queries)", category="other", design_ref="DESIGN.md section 5 C17",
        technique="finite-domain SMT (z3) over define/assert tables extracted from real renders of the support and type headers, one render per documented "
                  "option value; all ordered pairs of option sets decided at once; counterexamples replayed by compiling the mixed headers",
        text="Weak form, stated as such: no compiler is encoded. Decided: no two different option sets satisfy every emitted static assertion, no identical "
             "sets violate one, every documented option key is compared. c: 3x2x2x2 sets; cpp additionally 5 std values with their groups.",
        note="Assumes each emitted key is driven by one option (spot-validated on seeded multi-option renders) and that static_assert fires on unequal numbers."),
    "C20": dict(
        engine=E2, category="other", design_ref="DESIGN.md section 5 C20",
        technique="CrossHair/z3 symbolic execution of the real html templates with the documentation string symbolic; page must equal the page rendered for an "
                  "inert marker with the marker replaced by an inert escaping of the string",
        text="Escaping clause only: for every documentation text of 1..2 (thorough 3) characters over {<,>,&,a,\",'} placed as type documentation or field "
             "documentation, the type page and the namespace index page differ from the marker pages only by text that contains no < or >, whose every & "
             "starts a character reference and that un-escapes to the documentation.",
        note="Well-formedness and link-target clauses are NOT decided (no symbolic handle over all ASTs). Class-representative alphabet, tiny lengths."),
    "C08": dict(
        engine=E2, category="other", design_ref="DESIGN.md section 5 C08",
        technique="CrossHair/z3 symbolic execution of the real CLI dispatch (all mode/support flags symbolic) against generator contract stubs, "
                  "plus real generator entry points with symbolic is_dryrun on an in-memory FS; stub contract co-simulated with real nnvg",
        text="For every accepted valuation of generate_support x omit_serialization_support x generate_namespace_types x no_overwrite the set "
             "printed by list-outputs equals the set a real run creates, and list-outputs/list-inputs/dry-run only ever invoke generators in "
             "dry-run mode; the real _generate_type/_generate_header/_copy_header leave the (model) file system untouched when is_dryrun. "
             "Flag space is finite and fully covered; generators are abstracted by their documented contract.",
        note="Trusted: generator stubs = documented generate_all contract (validated per run by concrete co-simulation with the real nnvg on a "
             "3-type namespace), FakeFS, CrossHair, z3. Input-listing completeness, custom template dirs and lookup namespaces are not decided."),
    "C12": dict(
        engine=E2, category="other", design_ref="DESIGN.md section 5 C12",
        technique="inductive step: CrossHair/z3 over the real overwrite/generate/copy code from an arbitrary symbolic pre-state "
                  "(existence, mode bits, requested mode, overwrite flag, processors) on a POSIX file-system model",
        text="One generation step from an arbitrary directory pre-state (target absent or present with any of the stated mode values, foreign "
             "read-only sibling) with arbitrary file_mode/allow_overwrite: overwrite allowed => content equals a run into an empty directory "
             "and mode == file_mode (also over read-only files); disallowed and present => PermissionError and content+mode untouched; foreign "
             "files untouched. Because the pre-state is arbitrary the step covers run histories of any length.",
        note="Trusted: FakeFS POSIX owner model (non-root, umask 022), CrossHair, z3. Quick tier: 32 mode patterns; thorough: all 512. "
             "External-program post-processor and root user outside."),
    "C13": dict(
        engine=E2, category="other", design_ref="DESIGN.md section 5 C13",
        technique="differential symbolic execution (CrossHair/z3) of deep_update / LanguageConfig / C++ option validation against a reference "
                  "merge over immutable snapshots; symbolic document shapes and leaf values; aliasing via before/after snapshots",
        text="For <=3 source documents over 1 key (thorough: 2 keys x 2 docs), depth <=3, every mix of explicit/default/map values and "
             "unbounded leaf ints: merged result equals the documented precedence; sources unmodified after merging and after a further merge "
             "into the result; result unaffected by later edits of sources; getters never return DefaultValue; C++ std shorthands set their "
             "group as a unit (5 std values x 256 explicit-option subsets); a second builder never changes what an earlier context reports.",
        note="Trusted: CrossHair, z3, the 15-line reference merge. YAML parsing, CLI plumbing, wider/deeper documents outside the bound."),
    "C15": dict(
        engine=E2, category="other", design_ref="DESIGN.md section 5 C15",
        technique="symbolic execution of the real line buffer and post-processors with CrossHair/z3 over symbolic chunk strings, "
                  "bounded (<=3 chunks, <=4 chars, N<=2); counterexamples replayed natively",
        text="Bounded symbolic check: for every chunk sequence within the bound (2 chunks x <=2 chars, 1 chunk x <=3..4 chars, 3 chunks "
             "total <=4 in thorough; alphabet {a,space,tab,CR,LF,NBSP}; identity case over all unicode) the real "
             "_generate_with_line_buffer + TrimTrailingWhitespace/LimitEmptyLines output equals a direct line-by-line definition on the "
             "concatenated text. Bounded, not a proof; the interesting inputs (terminator split across chunks) are inside the bound.",
        note="Trusted: CrossHair's path exhaustion claim ('Confirmed over all paths'), z3, CPython. Pure-Python stand-ins for file objects. "
             "Texts longer than the bound and user-defined processors are outside. copy_header assumes the resource ends with a newline."),
}

NOT_APPLICABLE = {
    "C06": "oracle is compiler/interpreter acceptance and warning-freeness of generated files; cannot be expressed as a solver assertion over code we can encode (DESIGN.md section 6)",
}
PENDING_REASON = "check not landed yet in this revision of /verif (engine designed in DESIGN.md; reported as not covered rather than passed)"


def main() -> None:
    checks = []
    for pid in ALL:
        c = CHECKS.get(pid)
        if not c:
            continue
        checks.append(dict(
            property_id=pid,
            quick_cmd=f"./check {pid} quick",
            thorough_cmd=f"./check {pid} thorough",
            evidence_file=f"evidence/{pid}.json",
            replay_cmd_template="bash {path}/replay.sh",
            engine=c["engine"],
            level_claimed=dict(category=c["category"], text=c["text"], design_ref=c["design_ref"]),
            level_note=c["note"],
            technique=c["technique"],
        ))
    na = []
    for pid in ALL:
        if pid in CHECKS:
            continue
        na.append(dict(property_id=pid, reason=NOT_APPLICABLE.get(pid, PENDING_REASON)))
    man = dict(
        version=1,
        setup_cmd="bin/ensure_env.sh",
        hooks=dict(guard="NUNAVUT_VERIF", enable="no source hooks: harnesses reach the code from outside; checks export NUNAVUT_VERIF=1 for uniformity only",
                   baseline_off_cmd="bin/baseline.sh", source_commits=[], add_only=True),
        engines=[
            dict(name="llsym", path="llsym/", serves_properties=[p for p in ("C01", "C02", "C03", "C04", "C05", "C14") if p in CHECKS],
                 kind_free_text="bounded symbolic execution of the LLVM IR of generated C/C++ (clang 14 -> textual IR -> z3 bit-vector/FP terms), forking DFS, per-path solver queries"),
            dict(name="xh", path="xh/", serves_properties=[p for p in ALL if p in CHECKS and CHECKS[p]["engine"] == E2],
                 kind_free_text="CrossHair symbolic execution (z3) of nunavut's Python through PEP-316 harness functions, one process per condition, reachability twins, native replay"),
            dict(name="smt", path="smt/", serves_properties=[p for p in ("C14", "C17", "C19", "C05") if p in CHECKS],
                 kind_free_text="direct z3 queries (FP lemmas over IR-extracted terms, finite-domain option tables, regex lemmas)"),
        ],
        checks=checks,
        notes="Solver-based checking of the real code; every verdict is bounded and the bounds are in evidence/<id>.json. Exit codes: 0 ok, 1 VIOLATION (replayed), "
              "2 inconclusive, 3 counterexample that did not reproduce natively (bug in /verif). See DESIGN.md.",
        not_applicable=na,
    )
    (VERIF / "MANIFEST.json").write_text(json.dumps(man, indent=1) + "\n")
    import jsonschema  # available in /venv? fall back silently
    jsonschema.validate(man, json.load(open("/root/.vp/MANIFEST.schema.json")))
    print("MANIFEST.json written:", len(checks), "checks,", len(na), "not claimed")


if __name__ == "__main__":
    try:
        main()
    except ModuleNotFoundError:
        print("written (jsonschema not available for validation)")
