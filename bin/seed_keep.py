#!/usr/bin/env python3
"""seed_keep.py <PROP> <k> <detected_by> <summary of what it needs>  -- files a confirmed seeded change under /verif/seeded/"""
import json, pathlib, shutil, sys
prop, k, detected, needs = sys.argv[1], sys.argv[2], sys.argv[3], sys.argv[4]
src = pathlib.Path(f"/tmp/seed_out/{prop}")
dst = pathlib.Path(f"/verif/seeded/{prop}-{k}")
dst.mkdir(parents=True, exist_ok=True)
shutil.copy(src / f"patch_{k}.diff", dst / "patch.diff")
shutil.copy(src / f"demo_{k}.py", dst / "demo.py")
if (src / f"notes_{k}.md").exists():
    shutil.copy(src / f"notes_{k}.md", dst / "notes.md")
meta = dict(property=prop, breaks=prop, needs_to_manifest=needs, origin="independent sub-agent given only the property text and a scratch worktree",
            confirmed=dict(how="bin/seed_verify.py: demo passes on HEAD, fails with patch; pinned suite keeps all 415 baseline tests passing",
                           commands=[f"python3 bin/seed_verify.py seeded/{prop}-{k}/patch.diff seeded/{prop}-{k}/demo.py --check {prop}"]),
            detected_by=detected)
(dst / "meta.json").write_text(json.dumps(meta, indent=1) + "\n")
print("kept", dst)
